#!/usr/bin/env python3
# Regenerates MANIFEST.json from the table below and validates it against the schema.
import json, sys, os
HERE = os.path.dirname(os.path.abspath(__file__))
NA = {
 "C07": "pure function of <=3 small integer arguments (constructors/accessors); deciding it is exhaustive table enumeration (2.5 M points) with no schedule, clock, fault, I/O or shared state for a simulator to own. Its one seam-touching clause (loopback delivery preserves the value) is exercised inside C04's workload.",
 "C08": "Type/Is/Get*/String are pure functions of a byte string; totality over 2^24 strings is bounded enumeration, not simulation; no seam.",
 "C11": "TimeAt/Duration/Ticks are pure arithmetic over an in-memory tempo map; the oracle is exact rational arithmetic over generated maps; nothing to schedule or fault. (The simulator uses its own exact tempo integration as part of C12's oracle, but does not claim C11.)",
 "C15": "meta constructors/accessors are pure functions of their arguments; no I/O, time or concurrency.",
 "C16": "ConvertToSMF1 maps one in-memory value to another; no I/O, time or concurrency.",
 "C18": "sysex/MMC build/parse are pure functions of their arguments; no seam.",
 "C20": "sequencer export maps an in-memory song to an in-memory SMF; no I/O, time or concurrency (its only nondeterminism source, a map iteration, is sorted before use).",
}
CHECKS = {
 "C01": ("exploration", "4 C01", "seeded simulation of builder-call histories against an op-by-op reference model of the SMF value, through the simulated disk (fault-free configuration), with an independent decoder on the stored bytes",
   "Samples the space of API histories and message contents with boundary bias (VLQ length changes, running-status resets, SMPTE sign byte, both NoRunningStatus values); each run is decided by the reference model, the independent decoder of the stored bytes and the read-back. Sampling, not proof. This is the fault-free configuration of the smfworld simulator whose fault configurations decide C05/C09/C10.",
   "reference model and decoder written from the SMF 1.0 text (validated on the specification example); Go runtime; domain exclusions listed in the evidence file"),
 "C02": ("exploration", "4 C02", "seeded foreign-writer node emitting spec-valid files at byte level, delivered to smf.ReadFrom and compared with an independent reference decoder",
   "Differential check against an independent decoder over a grammar-based generator of files the library never writes (alien chunks, running status anywhere legal, non-minimal VLQs, F7 packets, unknown metas). Inputs only - weakest fit for the technique (DESIGN.md section 1); sampling, not proof.",
   "refsmf encoder/decoder pair, cross-checked on every generated file and validated on the specification example"),
 "C03": ("exploration", "4 C03", "seeded builder histories written to the simulated disk; every stored byte string checked by an independent strict SMF parser, size and double-write determinism checked",
   "Disk-content invariant: everything the library hands to the io.Writer is parsed by a strict validator that, unlike the library's own reader, checks chunk lengths, track count, single trailing EOT, canonical VLQs, running-status legality and trailing bytes. Sampling with boundary bias; the 2^28 VLQ sweep of the property is not simulation and is not done.",
   "strict parser written from the SMF 1.0 text; deltas <= 0x0FFFFFFF"),
 "C05": ("fault_enumeration", "4 C05", "crash of the writer/transfer at every byte offset of sampled valid files plus seeded corruption of stored files; restart reads the durable state; oracle: terminates, no panic, bounded allocation, error or event-for-event prefix",
   "Per sampled file the crash points are enumerated completely (every prefix); files, corruptions and random strings are sampled by seed. Decides 'no panic / terminates / proportional allocation / never fabricates' on everything explored.",
   "allocation bound 8 MiB + 256*len is coarse by design; 20 s real-time watchdog per call; reference decoding of the complete file defines 'prefix'"),
 "C09": ("exploration", "4 C09", "seeded simulation of the source's Read schedule: every single split point, one-byte reads, random partitions, data+EOF in one call, compared with the in-memory read",
   "Per sampled file (valid or truncated) every two-fragment schedule is enumerated and several many-fragment schedules are sampled; the result must equal the in-memory read. Schedules are explicit and replayable.",
   "readers return >=1 byte or an error per call; the in-memory read is the reference"),
 "C10": ("fault_enumeration", "4 C10", "I/O fault injection at every byte offset of the output stream (error and legal short write, sticky, and a destination that fails once and recovers) and of the consumed input stream (sticky non-EOF error, with and without data)",
   "Per sampled file every fault offset is enumerated in both directions and both legal fault forms; files are sampled by seed. Decides that every injected failure surfaces as an error and that a nil error implies exact size.",
   "the file-name API meets one real failing file system (symlink to /dev/full); otherwise faults come through the io.Writer/io.Reader arguments; writers/readers behave legally"),
 "C04": ("exploration", "4 C04", "seeded sender node + wire: running-status elisions, real-time bytes interleaved anywhere, arbitrary chunking with time deltas on the virtual clock; delivered list and time stamps compared with the sent list",
   "Samples message sequences x elisions x real-time placements x chunk schedules at both real observation points (drivers.Reader.EachMessage and midi.ListenTo on the testdrv loopback inside a synctest bubble). Every chunk boundary and time delta is an explicit, replayable part of the scenario. Sampling, not enumeration.",
   "well-formed streams; raw-reader zero padding accepted; refrx cross-checked against the sender on every run"),
 "C06": ("exploration", "4 C06", "seeded line noise, hot-plug (listener attached mid-message / mid-sysex), oversize sysex around the buffer size and arbitrary chunking; deliveries compared with an executable MIDI 1.0 receiver model, plus no-panic / well-formedness / resynchronisation clauses",
   "Samples streams over the byte-class alphabet and measures transition coverage of the receiver model instead of enumerating all bounded streams (that would be model checking).",
   "receiver model written from MIDI 1.0 (appendix A of DESIGN.md); F9/FD delivery not compared"),
 "C14": ("exploration", "4 C14", "paired simulated runs: the same recorded stream and chunk/time schedule replayed on fresh loopback drivers under all 8 listen-option sets; outputs compared as projections of the all-options run",
   "A relation between runs that differ only in configuration while the schedule is held fixed by the simulator (the schedule is recorded, not re-drawn).",
   "streams from C04's domain; same SysExBufferSize in all runs"),
 "C19": ("exploration", "4 C19", "seeded record streams with corrupted lines, delivered through a fragmenting reader with explicit Read schedule (incl. data+EOF); per-physical-line oracle from a reference line parser",
   "Samples record sequences, corruptions of the named kinds and fragmentation schedules; each call of ReadAndConvert is attributed to the stream bytes it consumed, so 'one record per call', 'never a record from neighbouring lines' and 'self-framing' are checked exactly.",
   "reference encoder/parser of the '%d %X\\n' format; corrupted lines are classified by the strict reference parser"),
 "C12": ("exploration", "4 C12", "simulated clock (testing/synctest) and simulated output ports with latency/error injection; playback of seeded multi-track files checked against a reference merge and exact rational tempo integration ('never before its time' on the simulated clock)",
   "The simulator owns the clock and the ports: every Send is stamped with the fake instant, hours of playback cost microseconds, port latency and Send errors are injected. Files, selections and maps are sampled by seed with a bias to many events per time key.",
   "fake clock is exact (real sleep overshoot not simulated); unique channel messages make every Send attributable"),
 "C13": ("exploration", "4 C13", "simulated recording sessions: live stream with seeded inter-arrival gaps on the driver's virtual clock inside a synctest bubble (incl. the stop function's one-second sleep), checked against the receiver model, exact tick conversion, the strict SMF parser and read-back",
   "Samples streams (channel, real-time, system common, sysex, stray data), chunk schedules, gaps from 0 ms to 10 min, tempi and resolutions; the recorded file is validated by the same strict parser as C03.",
   "gaps bounded so that tick counts fit the format's maximum delta; non-channel traffic may be stored or dropped"),
 "C17": ("exploration", "4 C17", "(a) seeded lifecycle call histories on the in-memory driver checked op by op against a lifecycle reference model; (b) the process-backed driver (instrumented at check time via go build -overlay) run under a seeded goroutine scheduler on a fake clock with a simulated helper process that behaves like a child of os/exec (kernel pipe buffer, Kill destroys what is buffered; cannot start / slow / stalls / dies / ends at once) and listener callbacks that stall, race detector on",
   "Samples call histories (a) and interleavings x helper behaviours (b). In (b) every scheduling decision at an instrumented synchronisation point comes from the seed, the race detector stays fully effective inside the deterministic run (fake-time yields create no happens-before), liveness is decided as 'every lifecycle call returns within a fake-time budget'.",
   "helper binary and exec.Cmd are stubs (modelled after measurements with real child processes, DESIGN.md section 6 defects 22 and 23); plain memory accesses between two synchronisation points are ordered only by the race detector's report"),
}
def main():
    checks = []
    for pid in sorted(CHECKS):
        cat, ref, tech, text, note = CHECKS[pid]
        checks.append({
            "property_id": pid,
            "quick_cmd": f"./run.sh {pid} quick",
            "thorough_cmd": f"./run.sh {pid} thorough",
            "evidence_file": f"/verif/evidence/{pid}.json",
            "replay_cmd_template": "./run.sh replay {path}",
            "engine": "sim",
            "level_claimed": {"category": cat, "text": text, "design_ref": "DESIGN.md section " + ref},
            "level_note": note,
            "technique": "deterministic simulation with fault injection: " + tech,
        })
    m = {
        "version": 1,
        "setup_cmd": "./setup.sh",
        "hooks": {
            "guard": "verif",
            "enable": "no source hooks are committed to /repo: the one package that needs instrumentation (v2/drivers/midicatdrv) is rewritten syntactically from /repo's working tree at check time into a temporary directory and built with `go test -overlay` (DESIGN.md 2.2); all other seams are existing interfaces",
            "baseline_off_cmd": "cd /repo/v2 && go test -mod=mod -json -vet=off -count=1 -timeout 25m ./...",
            "source_commits": [],
            "add_only": True,
        },
        "engines": [{"name": "sim", "path": "/verif/sim", "serves_properties": sorted(CHECKS), "kind_free_text": "deterministic simulator (seeded scheduler, simulated disk/transport/clock, fault injection, reference models, shrinker, fresh-process replay) written in Go; harness built with go1.26.8 (testing/synctest)"}],
        "checks": checks,
        "not_applicable": [{"property_id": k, "reason": v} for k, v in sorted(NA.items())],
        "notes": "Exit codes: 0 property held on everything explored, 1 VIOLATION (replay file given), 2 infrastructure trouble (never a VIOLATION). VERIF_SEED selects the seed, VERIF_RUNS overrides the run count, VERIF_WORKERS the number of worker processes, VERIF_REPO=<dir> builds against a scratch copy of the repository instead of /repo (used by tools_try_patch.sh and the mutation campaign; the registered commands use /repo). /verif/seeded holds 106 independently written breaking changes with what caught them; /verif/mutation/results.jsonl the mutation campaign.",
    }
    claimed = set(CHECKS)
    for pid in []:
        if pid not in claimed:
            m["not_applicable"].append({"property_id": pid, "reason": "claimed in DESIGN.md but its check is not built yet in this commit (work in progress); not a judgement that the technique does not apply"})
    m["not_applicable"].sort(key=lambda x: x["property_id"])
    json.dump(m, open(os.path.join(HERE, "MANIFEST.json"), "w"), indent=1)
    try:
        import jsonschema
        jsonschema.validate(m, json.load(open("/root/.vp/MANIFEST.schema.json")))
        print("MANIFEST.json valid;", len(checks), "checks")
    except ImportError:
        print("jsonschema not available; not validated")
main()
