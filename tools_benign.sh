#!/bin/sh
# usage: tools_benign.sh <patch> <ID> [ID...]   - a change that keeps the properties true must leave every check at exit 0
P="$1"; shift
WT=/tmp/wt-try
[ -d $WT ] || git -C /repo worktree add -q --detach $WT HEAD
BASE="$(git -C /repo rev-parse HEAD)"
# a patch written against an older commit of /repo names it in a file BASE beside it
[ -f "$(dirname "$P")/BASE" ] && BASE="$(cat "$(dirname "$P")/BASE")"
git -C $WT checkout -q --detach "$BASE"; git -C $WT checkout -q -- .; git -C $WT clean -fdq
git -C $WT apply "$P" || { echo "apply failed: $P"; exit 2; }
mkdir -p /verif/mutation/root-try; [ -e /verif/mutation/root-try/sim ] || ln -s /verif/sim /verif/mutation/root-try/sim; [ -e /verif/mutation/root-try/known_findings.json ] || ln -s /verif/known_findings.json /verif/mutation/root-try/known_findings.json
export GOFLAGS=-mod=mod GOPROXY=off GOSUMDB=off
suite=$(cd $WT/v2 && go test -vet=off -count=1 . ./smf/ ./drivers/testdrv/ ./drivers/midicat/ ./drivers/internal/... ./internal/... ./sequencer/ 2>&1 | grep -v "^ok" | head -3)
[ -n "$suite" ] && echo "SUITE FAILS with $P: $suite"
for id in "$@"; do
  out=$(cd /verif && VERIF_REPO=$WT VERIF_ROOT=/verif/mutation/root-try ./run.sh "$id" quick 2>&1 | grep -v "^port closed"); code=$?
  # exit code of the pipeline is grep's; recover the real one from the output
  if echo "$out" | grep -q "^VIOLATION"; then r="FALSE-ALARM?"; elif echo "$out" | grep -q "infrastructure error"; then r="EXIT2"; else r="ok"; fi
  echo "== $P $id: $r $(echo "$out" | grep "clause=\|infrastructure error" | head -2 | cut -c1-260)"
done
git -C $WT checkout -q -- .; git -C $WT clean -fdq
