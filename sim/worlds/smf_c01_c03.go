package worlds

import (
	"bytes"
	"encoding/json"
	"fmt"
	"os"
	"path/filepath"
	"strings"

	"gitlab.com/gomidi/midi/v2/smf"

	"verif/sim/core"
	"verif/sim/ref"
	"verif/sim/simio"
)

// RoundTrip is the fault-free configuration of smfworld: build by history, write to the
// simulated disk, inspect the stored bytes, read back. Prop selects which property's
// clauses are reported (C01: round trip, C03: stored bytes are strictly valid).
type RoundTrip struct {
	Prop string   `json:"prop"`
	Hist *APIHist `json:"hist"`
}

type roundTripWorld struct{ prop string }

func (w roundTripWorld) Gen(seed uint64, tier string) core.Scenario {
	r := core.NewRand(seed)
	return &RoundTrip{Prop: w.prop, Hist: genAPIHist(r, tier, w.prop == "C01", true)}
}

func (w roundTripWorld) Decode(raw json.RawMessage) (core.Scenario, error) {
	var s RoundTrip
	if err := json.Unmarshal(raw, &s); err != nil {
		return nil, err
	}
	if s.Hist == nil {
		return nil, fmt.Errorf("no history")
	}
	return &s, nil
}

func (s *RoundTrip) Size() int { return s.Hist.size() }

func (s *RoundTrip) Shrinks(try func(core.Scenario) bool) bool {
	return s.Hist.shrinks(func(h *APIHist) bool { return try(&RoundTrip{Prop: s.Prop, Hist: h}) })
}

func vlqClass(v uint32) string {
	switch {
	case v < 1<<7:
		return "1"
	case v < 1<<14:
		return "2"
	case v < 1<<21:
		return "3"
	case v < 1<<28:
		return "4"
	}
	return "5"
}

func (s *RoundTrip) Run(env *core.Env, st *core.Stats) (vs []core.Violation) {
	c01 := s.Prop == "C01"
	add := func(forC01 bool, v core.Violation) {
		if forC01 == c01 {
			vs = append(vs, v)
		}
	}
	var val, m, mismatch = s.Hist.Build()
	st.Eval(1)
	if mismatch != "" {
		add(true, core.V("builder-model", "op", "%s", mismatch))
		if strings.Contains(mismatch, "intermediate") {
			// a write or read in the middle of the history went wrong: that concerns the written bytes too
			add(false, core.V("strict-parse", "intermediate-write", "%s", mismatch))
		}
	}
	want := m.Written()

	// evidence: what this history reaches
	if st != nil {
		h := core.NewHash().Int(int(want.Format)).Int(int(want.Division)).Int(len(want.Tracks))
		nontrivial := false
		for _, t := range want.Tracks {
			var prevChan byte
			var prevKind int
			for _, e := range t {
				h = h.U64(uint64(e.Delta)).Bytes(e.LibBytes())
				st.ReachKey("delta-vlq-" + vlqClass(e.Delta))
				if e.Kind != ref.Chan {
					st.ReachKey("len-vlq-" + vlqClass(uint32(len(e.Data))))
				}
				if e.Kind == ref.Chan && e.Status == prevChan {
					if prevKind == ref.Chan {
						st.Probe("same-status-run")
						if len(e.Data) == 1 {
							st.Probe("2-byte-msg-under-running-status")
						}
					} else {
						st.Probe("same-status-after-meta-or-sysex")
					}
				}
				if e.Kind == ref.Chan {
					prevChan = e.Status
				}
				prevKind = e.Kind
				nontrivial = true
			}
		}
		st.ReachKey(fmt.Sprintf("format-%d", want.Format))
		st.ProbeIf(len(want.Tracks) > 16, "more-than-16-tracks")
		for _, t := range want.Tracks {
			if len(t) > 1000 {
				st.Probe("more-than-1000-events-in-a-track")
				break
			}
		}
		if want.Division&0x8000 != 0 {
			st.ReachKey("division-smpte")
		} else {
			st.ReachKey("division-metric")
		}
		st.ReachKey(fmt.Sprintf("norunningstatus-%v", s.Hist.NoRS))
		for _, op := range s.Hist.Ops {
			if op.Op == "write" {
				st.Probe("write-in-the-middle-of-the-history")
			}
			if op.Op == "reload" {
				st.Probe("continue-building-on-a-value-that-was-read")
			}
		}
		st.ProbeIf(s.Hist.Logger, "logger-set")
		if nontrivial {
			st.Distinct(h)
		}
		if len(want.Tracks) > 0 && s.Hist.payloadBytes() < 4096 {
			st.Sample(s)
		}
		if pb := s.Hist.payloadBytes(); pb >= 1<<24 {
			st.Probe("payload-above-16-MiB")
		} else if pb >= 1<<21 {
			st.Probe("payload-of-2-MiB")
		}
	}

	if len(m.Tracks) == 0 {
		// writing a value without tracks must fail, not panic
		o := writeTo(val, &simio.Disk{Limit: -1})
		if o.call.panicked || o.call.timeout {
			add(true, core.V("panic", panicKey(o.call.panicMsg), "WriteTo of empty value: %s", o.call.panicMsg))
		} else if o.err == nil {
			add(true, core.V("empty-write", "nil", "WriteTo of a value without tracks returned nil"))
		}
		return vs
	}

	// public Tracks of the value before writing equal the model (open tracks stay open)
	{
		got, bad := libToRef(val)
		if bad != "" {
			add(true, core.V("builder-model", "malformed", "%s", bad))
		} else {
			for i := range m.Tracks {
				if i >= len(got.Tracks) {
					add(true, core.V("builder-model", "tracks", "value has %d tracks, model %d", len(got.Tracks), len(m.Tracks)))
					break
				}
				if d := ref.EqualTracks(got.Tracks[i], m.Tracks[i]); d != "" {
					add(true, core.V("builder-model", "events", "track %d before write: %s", i, d))
					break
				}
			}
		}
	}

	disk := &simio.Disk{Limit: -1}
	wo := writeTo(val, disk)
	if wo.call.panicked || wo.call.timeout {
		v := core.V("panic", panicKey(wo.call.panicMsg), "WriteTo: %s timeout=%v", wo.call.panicMsg, wo.call.timeout)
		return append(vs, v)
	}
	if wo.err != nil {
		v := core.V("write-error", "err", "WriteTo of a valid value failed: %v", wo.err)
		return append(vs, v)
	}
	stored := disk.Stored

	// --- C03: the stored bytes
	if wo.size != int64(len(stored)) {
		add(false, core.V("size", "size", "WriteTo reported size %d, disk received %d bytes", wo.size, len(stored)))
	}
	inC03Domain := true
	for _, t := range want.Tracks {
		for _, e := range t {
			if e.Delta > 0x0FFFFFFF {
				inC03Domain = false
			}
		}
	}
	if inC03Domain {
		f, err := ref.Decode(stored, ref.DecodeOpts{Strict: true})
		if err != nil {
			add(false, core.V("strict-parse", strictKey(err), "strict parser rejects the written file: %v (file %s)", err, core.Trunc(core.HexStr(stored), 200)))
		} else {
			if d := ref.EqualFiles(f, want); d != "" {
				add(false, core.V("strict-content", "content", "strict parser recovers different content: %s", d))
			}
			if s.Hist.NoRS && f.Elisions > 0 {
				add(false, core.V("norunningstatus", "elided", "%d events written without status although NoRunningStatus is set", f.Elisions))
			}
			if f.Elisions > 0 {
				st.Probe("running-status-elision-occurred")
			}
			for _, l := range f.ChunkLens {
				switch {
				case l < 1<<8:
					st.ReachKey("chunklen-1byte")
				case l < 1<<16:
					st.ReachKey("chunklen-2byte")
				default:
					st.ReachKey("chunklen-3byte")
				}
			}
		}
	} else {
		st.Probe("delta-beyond-0FFFFFFF")
	}
	// writing the same value again emits identical bytes
	disk2 := &simio.Disk{Limit: -1}
	wo2 := writeTo(val, disk2)
	if wo2.call.panicked || wo2.err != nil {
		add(false, core.V("determinism", "second-write-failed", "second WriteTo failed: %v %s", wo2.err, wo2.call.panicMsg))
	} else if !bytes.Equal(stored, disk2.Stored) {
		add(false, core.V("determinism", "bytes-differ", "second WriteTo emitted different bytes (%d vs %d)", len(stored), len(disk2.Stored)))
	}

	// --- C01: stored bytes decode (independent decoder) to the model, and read-back equals model
	if f, err := ref.Decode(stored, ref.DecodeOpts{MaxVLQ: 5}); err != nil {
		add(true, core.V("stored-bytes", "undecodable", "reference decoder cannot decode the written file: %v", err))
	} else if d := ref.EqualFiles(f, want); d != "" {
		add(true, core.V("stored-bytes", "content", "reference decoding of written file differs from model: %s", d))
	}
	// now and then the same through the file-name API (WriteFile / ReadFile on a real
	// temporary directory): same bytes on disk, same value back, error for an impossible path
	if c01 && len(stored)%8 == 0 && env != nil && env.T != nil {
		st.Probe("file-api-roundtrip")
		dir := tempDir(env)
		path := dir + "/roundtrip.mid"
		// the path already holds a longer file: WriteFile must replace it, not write over its head
		if err := os.WriteFile(path, append(append([]byte{}, stored...), bytes.Repeat([]byte{0x55}, 777)...), 0o644); err != nil {
			panic(err)
		}
		val2, _, _ := s.Hist.Build()
		var werr error
		var back *smf.SMF
		var rerr error
		g := guarded(libBudget, false, func() {
			werr = val2.WriteFile(path)
			if werr == nil {
				back, rerr = smf.ReadFile(path)
			}
		})
		switch {
		case g.panicked || g.timeout:
			add(true, core.V("panic", panicKey(g.panicMsg), "WriteFile/ReadFile: %s", g.panicMsg))
		case werr != nil:
			add(true, core.V("file-api", "write", "WriteFile of a valid value failed: %v", werr))
		case rerr != nil:
			add(true, core.V("file-api", "read", "ReadFile of the file just written failed: %v", rerr))
		default:
			onDisk, _ := os.ReadFile(path)
			if !bytes.Equal(onDisk, stored) {
				add(true, core.V("file-api", "bytes", "WriteFile stored %d bytes that differ from what WriteTo emits (%d bytes)", len(onDisk), len(stored)))
			}
			if got, bad := libToRef(back); bad != "" {
				add(true, core.V("file-api", "malformed", "ReadFile: %s", bad))
			} else if d := ref.EqualFiles(got, want); d != "" {
				add(true, core.V("file-api", "content", "ReadFile differs from what was built: %s", d))
			}
		}
		os.Remove(path)
		val3, _, _ := s.Hist.Build()
		var e2 error
		g2 := guarded(libBudget, false, func() { e2 = val3.WriteFile(dir + "/no-such-dir/x.mid") })
		if g2.panicked {
			add(true, core.V("panic", panicKey(g2.panicMsg), "WriteFile to an impossible path: %s", g2.panicMsg))
		} else if e2 == nil {
			add(true, core.V("file-api", "impossible-path", "WriteFile into a directory that does not exist returned nil"))
		}
	}
	ro := readBytes(stored, false)
	switch ro.kind() {
	case "panic", "timeout":
		add(true, core.V("panic", panicKey(ro.call.panicMsg), "ReadFrom of written file: %s (%s)", ro.call.panicMsg, ro.kind()))
	case "ok":
		got, bad := libToRef(ro.s)
		if bad != "" {
			add(true, core.V("roundtrip", "malformed", "read-back value: %s", bad))
		} else if d := ref.EqualFiles(got, want); d != "" {
			add(true, core.V("roundtrip", "content", "read-back differs from what was built: %s", d))
		}
	default:
		add(true, core.V("read-error", "err", "ReadFrom of the written file failed: %v", ro.err))
	}
	return vs
}

func strictKey(err error) string {
	return structKey(err.Error(), 48)
}

var workerTempDir string

// tempDir returns a per-process scratch directory that is removed when the worker ends.
func tempDir(env *core.Env) string {
	if workerTempDir == "" {
		// inside the driver's scratch directory (which the driver removes, also when this
		// worker is killed or exits through a race report)
		parent := ""
		if j := os.Getenv("VERIF_JOB"); j != "" {
			parent = filepath.Dir(j)
		}
		d, err := os.MkdirTemp(parent, "verif-files-")
		if err != nil {
			panic(err)
		}
		workerTempDir = d
		env.T.Cleanup(func() { os.RemoveAll(d) })
	}
	return workerTempDir
}

func (h *APIHist) payloadBytes() int {
	n := 0
	for _, op := range h.Ops {
		for _, m := range op.Msgs {
			n += len(m)
		}
	}
	return n
}
