package worlds

import (
	"bytes"
	"fmt"

	"verif/sim/core"
	"verif/sim/ref"
)

// Worlds maps property ids to their world.
var Worlds = map[string]core.World{
	"C01":  roundTripWorld{prop: "C01"},
	"C02":  foreignWorld{},
	"C03":  roundTripWorld{prop: "C03"},
	"C05":  crashWorld{},
	"C09":  fragWorld{},
	"C10":  ioFaultWorld{},
	"C04":  liveWorld{prop: "C04"},
	"C06":  liveWorld{prop: "C06"},
	"C14":  liveWorld{prop: "C14"},
	"C19":  lineWorld{},
	"C12":  playWorld{},
	"C13":  recWorld{},
	"C17a": portHistWorld{},
}

// SelfTest validates the reference models against the specification's own examples and
// against each other before any check runs. A failure is an infrastructure error (exit 2).
func SelfTest() error {
	// SMF 1.0 specification, appendix: format 0 example
	spec0 := []byte{
		0x4D, 0x54, 0x68, 0x64, 0, 0, 0, 6, 0, 0, 0, 1, 0, 0x60,
		0x4D, 0x54, 0x72, 0x6B, 0, 0, 0, 0x3B,
		0x00, 0xFF, 0x58, 0x04, 0x04, 0x02, 0x18, 0x08,
		0x00, 0xFF, 0x51, 0x03, 0x07, 0xA1, 0x20,
		0x00, 0xC0, 0x05,
		0x00, 0xC1, 0x2E,
		0x00, 0xC2, 0x46,
		0x00, 0x92, 0x30, 0x60,
		0x00, 0x3C, 0x60,
		0x60, 0x91, 0x43, 0x40,
		0x60, 0x90, 0x4C, 0x20,
		0x81, 0x40, 0x82, 0x30, 0x40,
		0x00, 0x3C, 0x40,
		0x00, 0x81, 0x43, 0x40,
		0x00, 0x80, 0x4C, 0x40,
		0x00, 0xFF, 0x2F, 0x00,
	}
	f, err := ref.Decode(spec0, ref.DecodeOpts{Strict: true})
	if err != nil {
		return fmt.Errorf("spec example 0: %v", err)
	}
	if f.Format != 0 || f.Division != 96 || len(f.Tracks) != 1 || len(f.Tracks[0]) != 14 {
		return fmt.Errorf("spec example 0 decoded wrongly: %+v", f)
	}
	e := f.Tracks[0][6]
	if e.Status != 0x92 || e.Data[0] != 0x3C || e.Data[1] != 0x60 || e.Delta != 0 {
		return fmt.Errorf("spec example 0: running status event wrong: %v", e)
	}
	if f.Tracks[0][9].Delta != 192 || f.Tracks[0][9].Status != 0x82 {
		return fmt.Errorf("spec example 0: two-byte delta wrong: %v", f.Tracks[0][9])
	}
	// VLQ table of the specification
	for _, c := range []struct {
		v uint32
		b []byte
	}{{0, []byte{0}}, {0x40, []byte{0x40}}, {0x7F, []byte{0x7F}}, {0x80, []byte{0x81, 0x00}}, {0x2000, []byte{0xC0, 0x00}},
		{0x3FFF, []byte{0xFF, 0x7F}}, {0x4000, []byte{0x81, 0x80, 0x00}}, {0x100000, []byte{0xC0, 0x80, 0x00}},
		{0x1FFFFF, []byte{0xFF, 0xFF, 0x7F}}, {0x200000, []byte{0x81, 0x80, 0x80, 0x00}}, {0x8000000, []byte{0xC0, 0x80, 0x80, 0x00}},
		{0x0FFFFFFF, []byte{0xFF, 0xFF, 0xFF, 0x7F}}} {
		if !bytes.Equal(ref.VLQ(c.v), c.b) {
			return fmt.Errorf("VLQ(%X) = %X, spec says %X", c.v, ref.VLQ(c.v), c.b)
		}
	}
	// encoder -> decoder agreement on generated foreign files, and strict parser must reject
	// what the foreign encoder marks as non-canonical
	for i := uint64(0); i < 50; i++ {
		ff := genForeign(core.NewRand(core.Mix(0x5e1f, i)), "quick")
		data, rg := ff.Encode()
		if len(rg) != len(data) {
			return fmt.Errorf("foreign encoder: region map length %d != %d", len(rg), len(data))
		}
		d, err := ref.Decode(data, ref.DecodeOpts{})
		if err != nil {
			return fmt.Errorf("foreign file %d: reference decoder: %v", i, err)
		}
		if diff := ref.EqualFiles(d, ff.Expected()); diff != "" {
			return fmt.Errorf("foreign file %d: %s", i, diff)
		}
	}
	if err := selfTestMore(); err != nil {
		return err
	}
	return nil
}
