package worlds

import (
	"bytes"
	"fmt"
	"io"
	"os"
	"runtime"
	"runtime/debug"
	"strings"
	"syscall"
	"testing"
	"testing/synctest"
	"time"

	"gitlab.com/gomidi/midi/v2/smf"

	"verif/sim/core"
	"verif/sim/ref"
	"verif/sim/simio"
)

// ---------------------------------------------------------------------------
// API histories: the SMF value is built by a literal list of public-API calls.

// APIOp is one builder call.
//
//	track   start a new local smf.Track (var tr smf.Track)
//	add     tr.Add(delta, msgs...)
//	close   tr.Close(delta)
//	smfadd  s.Add(tr)        (the local track is not touched afterwards)
//	append  s.Tracks = append(s.Tracks, tr)   (public field)
//	write   s.WriteTo(scratch)  in the middle of the history (auto-closes open tracks of the value)
//	reload  s = ReadFrom(bytes written by s.WriteTo)   (continue building on a value that was read)
type APIOp struct {
	Op    string     `json:"op"`
	Delta uint32     `json:"delta,omitempty"`
	Msgs  []core.Hex `json:"msgs,omitempty"`
}

// APIHist is a history of builder calls.
type APIHist struct {
	Ctor   int     `json:"ctor"`   // 0 New, 1 NewSMF1, 2 NewSMF2
	Metric uint16  `json:"metric"` // used when FPS == 0
	FPS    uint8   `json:"fps"`    // 24/25/29/30 => SMPTE
	Sub    uint8   `json:"sub"`
	NoRS   bool    `json:"no_running_status"`
	Logger bool    `json:"logger,omitempty"` // set the public Logger field (to a logger that discards)
	Ops    []APIOp `json:"ops"`
}

type discardLogger struct{}

func (discardLogger) Printf(format string, vals ...interface{}) {}

// Model is the reference model of the SMF value (refsmfvalue in DESIGN.md).
type Model struct {
	Format   uint16
	Division uint16
	Tracks   [][]ref.Event
	AddErrs  []bool // per smfadd: whether an error was expected
}

func eotEvent(delta uint32) ref.Event {
	return ref.Event{Delta: delta, Kind: ref.Meta, Status: 0xFF, MetaType: 0x2F, Data: core.Hex{}}
}

func trackClosed(t []ref.Event) bool { return len(t) > 0 && t[len(t)-1].IsEOT() }

// Build executes the history against the real API and, op by op, against the model.
// It returns the value, the model of what a subsequent write must produce (tracks
// auto-closed, format promoted), and a description of any op-level disagreement.
func (h *APIHist) Build() (s *smf.SMF, m *Model, mismatch string) {
	// a panic inside a builder call of the library is reported, not propagated
	defer func() {
		if p := recover(); p != nil {
			mismatch = fmt.Sprintf("a builder call panicked: %v (intermediate)", p)
			if m == nil {
				m = &Model{}
			}
			if s == nil {
				s = smf.New()
			}
		}
	}()
	switch h.Ctor {
	case 1:
		s = smf.NewSMF1()
	case 2:
		s = smf.NewSMF2()
	default:
		s = smf.New()
	}
	m = &Model{Format: uint16(h.Ctor)}
	if h.FPS != 0 {
		s.TimeFormat = smf.TimeCode{FramesPerSecond: h.FPS, SubFrames: h.Sub}
		m.Division = uint16(byte(-int8(h.FPS)))<<8 | uint16(h.Sub)
	} else {
		s.TimeFormat = smf.MetricTicks(h.Metric)
		m.Division = h.Metric
	}
	s.NoRunningStatus = h.NoRS
	if h.Logger {
		s.Logger = discardLogger{}
	}

	var cur *smf.Track
	var mcur []ref.Event
	for i, op := range h.Ops {
		switch op.Op {
		case "track":
			cur = new(smf.Track)
			mcur = nil
		case "add":
			if cur == nil {
				continue
			}
			msgs := make([][]byte, len(op.Msgs))
			for j := range op.Msgs {
				msgs[j] = append([]byte{}, op.Msgs[j]...)
			}
			cur.Add(op.Delta, msgs...)
			if !trackClosed(mcur) {
				d := op.Delta
				for _, mm := range op.Msgs {
					ev, ok := ref.ParseLibMessage(d, mm)
					if !ok {
						return s, m, fmt.Sprintf("op %d: generator produced a message outside the domain: %X", i, []byte(mm))
					}
					mcur = append(mcur, ev)
					d = 0
					if ev.IsEOT() { // adding the EOT message closes the track
						break
					}
				}
			}
		case "close":
			if cur == nil {
				continue
			}
			cur.Close(op.Delta)
			if !trackClosed(mcur) {
				mcur = append(mcur, eotEvent(op.Delta))
			}
		case "write", "reload":
			if len(m.Tracks) == 0 {
				continue // writing a value without tracks fails and changes nothing
			}
			var bf bytes.Buffer
			var werr error
			cur0 := s
			if g := guarded(libBudget, false, func() { _, werr = cur0.WriteTo(&bf) }); g.panicked || g.timeout {
				mismatch = fmt.Sprintf("op %d: intermediate WriteTo panicked: %s", i, g.panicMsg)
				continue
			}
			if werr != nil {
				mismatch = fmt.Sprintf("op %d: intermediate WriteTo failed: %v", i, werr)
				continue
			}
			// writing closes the open tracks of the value and promotes the format
			for ti := range m.Tracks {
				if !trackClosed(m.Tracks[ti]) {
					m.Tracks[ti] = append(m.Tracks[ti], eotEvent(0))
				}
			}
			if len(m.Tracks) > 1 && m.Format == 0 {
				m.Format = 1
			}
			if op.Op == "reload" {
				var back *smf.SMF
				var err error
				if g := guarded(libBudget, false, func() { back, err = smf.ReadFrom(bytes.NewReader(bf.Bytes())) }); g.panicked || g.timeout {
					mismatch = fmt.Sprintf("op %d: re-reading the intermediate file panicked: %s", i, g.panicMsg)
					continue
				}
				if err != nil {
					mismatch = fmt.Sprintf("op %d: re-reading the intermediate file failed: %v", i, err)
					continue
				}
				back.NoRunningStatus = h.NoRS
				if h.Logger {
					back.Logger = discardLogger{}
				}
				s = back
			}
		case "smfadd", "append":
			if cur == nil {
				continue
			}
			if op.Op == "smfadd" {
				err := s.Add(*cur)
				wantErr := !trackClosed(mcur)
				if (err != nil) != wantErr {
					mismatch = fmt.Sprintf("op %d: SMF.Add error=%v, model expects error=%v", i, err, wantErr)
				}
			} else {
				s.Tracks = append(s.Tracks, *cur)
			}
			m.Tracks = append(m.Tracks, append([]ref.Event{}, mcur...))
			cur, mcur = nil, nil
		}
		if cur != nil {
			if cur.IsClosed() != trackClosed(mcur) {
				mismatch = fmt.Sprintf("op %d (%s): Track.IsClosed()=%v, model %v", i, op.Op, cur.IsClosed(), trackClosed(mcur))
			}
		}
	}
	return s, m, mismatch
}

// Written returns the model of the file a write must produce.
func (m *Model) Written() *ref.File {
	f := &ref.File{Format: m.Format, Division: m.Division, NTracks: uint16(len(m.Tracks))}
	if len(m.Tracks) > 1 && f.Format == 0 {
		f.Format = 1
	}
	for _, t := range m.Tracks {
		tt := append([]ref.Event{}, t...)
		if !trackClosed(tt) {
			tt = append(tt, eotEvent(0))
		}
		f.Tracks = append(f.Tracks, tt)
	}
	return f
}

// libToRef converts a library value into the reference representation.
func libToRef(s *smf.SMF) (*ref.File, string) {
	if s == nil {
		return &ref.File{}, "nil value returned together with a nil error"
	}
	f := &ref.File{Format: s.Format(), NTracks: uint16(len(s.Tracks))}
	switch tf := s.TimeFormat.(type) {
	case smf.MetricTicks:
		f.Division = uint16(tf)
	case smf.TimeCode:
		f.Division = uint16(byte(-int8(tf.FramesPerSecond)))<<8 | uint16(tf.SubFrames)
	default:
		return f, fmt.Sprintf("time format %T", s.TimeFormat)
	}
	for i, t := range s.Tracks {
		var evs []ref.Event
		for j, e := range t {
			ev, ok := ref.ParseLibMessage(e.Delta, e.Message)
			if !ok {
				return f, fmt.Sprintf("track %d event %d: malformed message % X", i, j, []byte(e.Message))
			}
			evs = append(evs, ev)
		}
		f.Tracks = append(f.Tracks, evs)
	}
	return f, ""
}

// ---------------------------------------------------------------------------
// Guarded calls into the library.

type callResult struct {
	panicked bool
	panicMsg string
	stack    string
	timeout  bool
	alloc    uint64
}

// guarded runs f with panic capture and a real-time watchdog. The watchdog exists only to
// turn a non-terminating library call into a reportable violation instead of a hung
// worker; its budget is many orders of magnitude above any legitimate call.
func guarded(budget time.Duration, measureAlloc bool, f func()) (res callResult) {
	done := make(chan callResult, 1)
	var m0, m1 runtime.MemStats
	if measureAlloc {
		runtime.ReadMemStats(&m0)
	}
	go func() {
		var r callResult
		defer func() {
			if p := recover(); p != nil {
				r.panicked = true
				r.panicMsg = fmt.Sprint(p)
				r.stack = string(debug.Stack())
			}
			done <- r
		}()
		f()
	}()
	// The budget is processor time of this process, not wall-clock time: on a loaded machine
	// a legitimate call has been seen to take more than a minute of wall clock (and the
	// verdict must be the same when the run is executed again), whereas a runaway loop burns
	// its budget at full speed. Wall-clock time is only a last backstop, and running into it
	// is trouble of the infrastructure, never a violation.
	cpu0, wall0 := time.Duration(-1), time.Now() // processor time is first read at the first tick
	tick := time.NewTicker(50 * time.Millisecond)
	defer tick.Stop()
wait:
	for {
		select {
		case r := <-done:
			if measureAlloc {
				runtime.ReadMemStats(&m1)
				r.alloc = m1.TotalAlloc - m0.TotalAlloc
			}
			return r
		case <-tick.C:
			if cpu0 < 0 {
				cpu0 = processCPU()
			}
			if processCPU()-cpu0 >= budget {
				break wait
			}
			if time.Since(wall0) >= 40*budget {
				fmt.Fprintf(os.Stderr, "verif: infrastructure trouble: a library call used %v of processor time in %v of wall-clock time and has not returned\n", processCPU()-cpu0, time.Since(wall0))
				os.Exit(3)
			}
		}
	}
	{
		// The call is abandoned (a goroutine cannot be killed). What it has requested from
		// the allocator so far is already accounted: a call that is slow because it is
		// clearing gigabytes is reported as an allocation violation, not as a hang.
		r := callResult{timeout: true}
		if measureAlloc {
			runtime.ReadMemStats(&m1)
			r.alloc = m1.TotalAlloc - m0.TotalAlloc
		}
		abandoned = true
		return r
	}
}

// processCPU is the processor time (user + system) this process has used so far.
func processCPU() time.Duration {
	var ru syscall.Rusage
	if err := syscall.Getrusage(syscall.RUSAGE_SELF, &ru); err != nil {
		return 0
	}
	return time.Duration(ru.Utime.Nano() + ru.Stime.Nano())
}

// abandoned is set when a library call had to be left running; the worker stops exploring
// after recording the violation (the stray goroutine may hold gigabytes).
var abandoned bool

// Abandoned reports whether a call of this process was abandoned.
func Abandoned() bool { return abandoned }

// libBudget is processor time (see guarded): legitimate calls stay below 2 s; a real runaway
// loop is reported after this budget.
const libBudget = 20 * time.Second

// stepLimitReader fails a read loop that never ends (reader-driven non-termination).
type stepLimitReader struct {
	r     io.Reader
	left  int
	blown bool
}

func (s *stepLimitReader) Read(p []byte) (int, error) {
	if s.left <= 0 {
		s.blown = true
		return 0, io.ErrUnexpectedEOF
	}
	s.left--
	return s.r.Read(p)
}

type readOutcome struct {
	s     *smf.SMF
	err   error
	call  callResult
	steps bool
}

func (o readOutcome) kind() string {
	switch {
	case o.call.panicked:
		return "panic"
	case o.call.timeout:
		return "timeout"
	case o.err == nil:
		return "ok"
	case o.err == smf.ErrMissing:
		return "missing"
	default:
		return "error"
	}
}

// readFrom reads through a step-limited wrapper that exposes a Seek method exactly when
// the source has one (the library may look for it).
func readFrom(r io.Reader, nbytes int, alloc bool) readOutcome {
	var o readOutcome
	if sk, ok := r.(io.Seeker); ok {
		sl := &stepLimitSeeker{stepLimitReader: stepLimitReader{r: r, left: 16*nbytes + 4096}, s: sk}
		o.call = guarded(libBudget, alloc, func() {
			o.s, o.err = smf.ReadFrom(sl)
		})
		o.steps = sl.blown
		return o
	}
	sl := &stepLimitReader{r: r, left: 16*nbytes + 4096}
	o.call = guarded(libBudget, alloc, func() {
		o.s, o.err = smf.ReadFrom(sl)
	})
	o.steps = sl.blown
	return o
}

func readBytes(b []byte, alloc bool) readOutcome {
	return readFrom(bytes.NewReader(b), len(b), alloc)
}

// stepLimitSeeker is a seekable source (like *os.File or bytes.Reader) with a step budget
// on reads and seeks.
type stepLimitSeeker struct {
	stepLimitReader
	s io.Seeker
}

func (s *stepLimitSeeker) Seek(off int64, whence int) (int64, error) {
	if s.left <= 0 {
		s.blown = true
		return 0, io.ErrUnexpectedEOF
	}
	s.left--
	return s.s.Seek(off, whence)
}

// readSeekable reads from a source that also implements io.Seeker (bytes.Reader does).
func readSeekable(b []byte, alloc bool) readOutcome {
	return readFrom(bytes.NewReader(b), len(b), alloc)
}

// readUnseekable hides everything but Read.
func readUnseekable(b []byte, alloc bool) readOutcome {
	return readFrom(plainReader{bytes.NewReader(b)}, len(b), alloc)
}

type plainReader struct{ r io.Reader }

func (p plainReader) Read(b []byte) (int, error) { return p.r.Read(b) }

type writeOutcome struct {
	size int64
	err  error
	call callResult
	disk *simio.Disk
}

func writeTo(s *smf.SMF, d *simio.Disk) writeOutcome {
	var o writeOutcome
	o.disk = d
	o.call = guarded(libBudget, false, func() {
		o.size, o.err = s.WriteTo(d)
	})
	return o
}

// panicKey gives a short structural key for a panic message.
func panicKey(msg string) string {
	return "panic:" + structKey(msg, 48)
}

// structKey strips numbers and hex values from a message so that it names the kind of
// failure, not the instance.
func structKey(msg string, n int) string {
	var out []byte
	prevSpace := false
	for i := 0; i < len(msg); i++ {
		c := msg[i]
		if c >= '0' && c <= '9' {
			break // the text before the first number names the kind of failure
		}
		if c == ' ' || c == '\n' || c == '\t' {
			if prevSpace {
				continue
			}
			prevSpace = true
			c = ' '
		} else {
			prevSpace = false
		}
		out = append(out, c)
	}
	for len(out) > 0 && out[len(out)-1] == ' ' {
		out = out[:len(out)-1]
	}
	if len(out) > n {
		out = out[:n]
	}
	return string(out)
}

// ---------------------------------------------------------------------------
// Generators shared by the SMF worlds.

var deltaEdges = []uint32{0, 1, 0x7F, 0x80, 0x3FFF, 0x4000, 0x1FFFFF, 0x200000, 0x0FFFFFFF}

func genDelta(r *core.Rand, max32 bool) uint32 {
	switch r.Weighted(40, 30, 20, 5, 5) {
	case 0:
		return 0
	case 1:
		return uint32(r.Intn(500))
	case 2:
		e := deltaEdges[r.Intn(len(deltaEdges))]
		switch r.Intn(3) {
		case 0:
			if e > 0 {
				return e - 1
			}
		case 1:
			if e < 0x0FFFFFFF {
				return e + 1
			}
		}
		return e
	case 3:
		return uint32(r.Uint64() & 0x0FFFFFFF)
	default:
		if max32 {
			return r.PickU32(0x10000000, 0x7FFFFFFF, 0x80000000, 0xFFFFFFFF, uint32(r.Uint64()))
		}
		return uint32(r.Uint64() & 0x0FFFFFFF)
	}
}

func genPayloadLen(r *core.Rand, big bool) int {
	switch r.Weighted(10, 10, 50, 10, 10, 4, 2) {
	case 0:
		return 0
	case 1:
		return 1
	case 2:
		return r.Range(2, 20)
	case 3:
		return 127
	case 4:
		return 128
	case 5:
		return r.Range(129, 400)
	default:
		if big {
			return r.PickInt(16383, 16384, 20000)
		}
		return r.Range(129, 300)
	}
}

var chanStatusKinds = []byte{0x80, 0x90, 0xA0, 0xB0, 0xC0, 0xD0, 0xE0}

// known meta types with a fixed payload length (type, len); text-like types take any length.
var fixedMeta = [][2]int{{0x00, 2}, {0x20, 1}, {0x21, 1}, {0x51, 3}, {0x54, 5}, {0x58, 4}, {0x59, 2}}
var textMeta = []byte{0x01, 0x02, 0x03, 0x04, 0x05, 0x06, 0x07, 0x08, 0x09, 0x7F}
var unknownMeta = []byte{0x0A, 0x10, 0x22, 0x30, 0x4B, 0x60, 0x7E}

// genEvent generates one in-domain event. prev is the previous channel status (0 if none),
// used to produce runs of equal status (running status).
func genEvent(r *core.Rand, prev byte, big bool, allowEmptySeqData bool) ref.Event {
	switch r.Weighted(60, 25, 15) {
	case 0:
		var st byte
		if prev != 0 && r.Chance(1, 2) {
			st = prev
		} else {
			st = chanStatusKinds[r.Intn(7)] | byte(r.Intn(16))
		}
		n := 2
		if st&0xF0 == 0xC0 || st&0xF0 == 0xD0 {
			n = 1
		}
		d := r.Data7(n)
		if r.Chance(1, 8) {
			for i := range d {
				d[i] = byte(r.PickInt(0, 0x7F, 0x40))
			}
		}
		return ref.Event{Kind: ref.Chan, Status: st, Data: d}
	case 1:
		switch r.Weighted(40, 40, 20) {
		case 0:
			fm := fixedMeta[r.Intn(len(fixedMeta))]
			p := r.Bytes(fm[1])
			if fm[0] == 0x51 && r.Chance(1, 4) {
				p = [][]byte{{0, 0, byte(r.Intn(3))}, {0x07, 0x00, 0x00}, {0x07, 0x00, 0xFF}, {0xFF, 0xFF, 0xFF}, {0x00, 0xFF, 0x00}}[r.Intn(5)] // extreme tempi, zero bytes inside
			}
			return ref.Event{Kind: ref.Meta, Status: 0xFF, MetaType: byte(fm[0]), Data: p}
		case 1:
			t := textMeta[r.Intn(len(textMeta))]
			n := genPayloadLen(r, big)
			if t == 0x7F && n == 0 && !allowEmptySeqData {
				n = 1
			}
			data := r.Bytes(n)
			if r.Chance(1, 8) {
				// payloads that look like file structure
				data = append([]byte{}, [][]byte{[]byte("MTrk"), []byte("MThd\x00\x00\x00\x06"), {0x00, 0xFF, 0x2F, 0x00}, {0xFF, 0x2F, 0x00, 0x4D, 0x54, 0x72, 0x6B}, {0xF7}, {0xF0, 0x7E, 0xF7}, {0x00, 0x90, 0x40, 0x40}}[r.Intn(7)]...)
			}
			return ref.Event{Kind: ref.Meta, Status: 0xFF, MetaType: t, Data: data}
		default:
			t := unknownMeta[r.Intn(len(unknownMeta))]
			return ref.Event{Kind: ref.Meta, Status: 0xFF, MetaType: t, Data: r.Bytes(genPayloadLen(r, false))}
		}
	default:
		n := genPayloadLen(r, big)
		switch r.Intn(3) {
		case 0: // complete sysex F0 ... F7
			p := r.Data7(n)
			return ref.Event{Kind: ref.Sysex, Status: 0xF0, Data: append(p, 0xF7)}
		case 1: // F0 packet without terminating F7
			return ref.Event{Kind: ref.Sysex, Status: 0xF0, Data: r.Data7(n)}
		default: // F7 continuation / escape with arbitrary bytes
			return ref.Event{Kind: ref.Sysex, Status: 0xF7, Data: r.Bytes(n)}
		}
	}
}

// genAPIHist draws a builder history.
func genAPIHist(r *core.Rand, tier string, max32 bool, allowHuge ...bool) *APIHist {
	h := &APIHist{Ctor: r.Weighted(50, 35, 15)}
	if r.Chance(1, 4) {
		h.FPS = byte(r.PickInt(24, 25, 29, 30))
		h.Sub = byte(r.PickInt(0, 1, 4, 8, 10, 40, 80, 100, 127, 128, 255))
	} else {
		h.Metric = uint16(r.PickInt(1, 2, 24, 96, 127, 128, 255, 256, 480, 960, 15360, 32767, r.Range(1, 32767)))
	}
	h.NoRS = r.Chance(1, 3)
	allowMid := len(allowHuge) > 0 && allowHuge[0]
	if allowMid {
		h.Logger = r.Chance(1, 6)
	}
	big := tier == "thorough" && r.Chance(1, 6)
	// now and then one track body crosses 65535 bytes (chunk length needs a third byte)
	hugeTrack := -1
	if len(allowHuge) > 0 && allowHuge[0] && r.Chance(1, 60) {
		hugeTrack = 0
	}
	nTracks := r.PickInt(1, 1, 1, 2, 2, 3, 4, 6)
	manyEvents := 0
	if len(allowHuge) > 0 && allowHuge[0] {
		if r.Chance(1, 80) {
			nTracks = r.PickInt(17, 33, 130, 260) // more tracks than channels, more than a byte counts
		}
		if r.Chance(1, 60) {
			manyEvents = r.PickInt(130, 260, 1100, 4200) // more events in one track than small counters hold
		}
	}
	if hugeTrack == 0 {
		hugeTrack = r.Intn(nTracks)
	}
	maxEv := r.PickInt(0, 1, 3, 8, 20, 40)
	if tier == "thorough" && r.Chance(1, 5) {
		maxEv = 150
	}
	if nTracks > 16 {
		maxEv = 2
	}
	for t := 0; t < nTracks; t++ {
		h.Ops = append(h.Ops, APIOp{Op: "track"})
		nEv := r.Range(0, maxEv)
		if manyEvents > 0 && t == 0 {
			nEv = manyEvents
		}
		earlyAt := -1
		closeMode := r.Weighted(55, 20, 15, 10) // late, omitted, early, twice
		if closeMode == 2 && nEv > 0 {
			earlyAt = r.Intn(nEv)
		}
		var prev byte
		if t == hugeTrack {
			n := r.PickInt(65520, 65536, 70000, 131072)
			if r.Chance(1, 5) {
				n = r.PickInt(1<<21-1, 1<<21, 1<<21+1) // the length needs a fourth VLQ byte
			} else if r.Chance(1, 25) {
				n = 1<<24 + r.Intn(3) // the chunk length needs its fourth byte
			}
			pl := ref.Event{Kind: ref.Meta, Status: 0xFF, MetaType: 0x01, Data: r.Bytes(n)}
			if r.Chance(1, 2) {
				pl = ref.Event{Kind: ref.Sysex, Status: 0xF0, Data: append(r.Data7(n), 0xF7)}
			}
			h.Ops = append(h.Ops, APIOp{Op: "add", Delta: genDelta(r, max32), Msgs: []core.Hex{pl.LibBytes()}})
		}
		for e := 0; e < nEv; {
			if e == earlyAt {
				h.Ops = append(h.Ops, APIOp{Op: "close", Delta: genDelta(r, max32)})
				earlyAt = -1
			}
			k := 1
			if r.Chance(1, 5) {
				k = r.Range(2, 4)
			}
			op := APIOp{Op: "add", Delta: genDelta(r, max32)}
			for j := 0; j < k; j++ {
				ev := genEvent(r, prev, big, false)
				if ev.Kind == ref.Chan {
					prev = ev.Status
				} else if r.Chance(1, 2) {
					// keep prev so that the same status follows a meta/sysex (running status reset)
				} else {
					prev = 0
				}
				op.Msgs = append(op.Msgs, ev.LibBytes())
			}
			h.Ops = append(h.Ops, op)
			e += k
		}
		switch closeMode {
		case 0:
			h.Ops = append(h.Ops, APIOp{Op: "close", Delta: genDelta(r, max32)})
		case 3:
			h.Ops = append(h.Ops, APIOp{Op: "close", Delta: genDelta(r, max32)}, APIOp{Op: "close", Delta: genDelta(r, max32)})
		}
		if r.Chance(1, 8) {
			h.Ops = append(h.Ops, APIOp{Op: "append"})
		} else {
			h.Ops = append(h.Ops, APIOp{Op: "smfadd"})
		}
		// now and then the value is written (or written and read back) before it is complete
		if allowMid && t < nTracks-1 && r.Chance(1, 6) {
			if r.Chance(1, 3) {
				h.Ops = append(h.Ops, APIOp{Op: "reload"})
			} else {
				h.Ops = append(h.Ops, APIOp{Op: "write"})
			}
		}
	}
	return h
}

func (h *APIHist) clone() *APIHist {
	c := *h
	c.Ops = append([]APIOp{}, h.Ops...)
	return &c
}

func (h *APIHist) size() int {
	n := 0
	for _, op := range h.Ops {
		n += 1 + len(op.Msgs)
	}
	return n
}

// shrinks proposes smaller histories.
func (h *APIHist) shrinks(try func(*APIHist) bool) bool {
	if core.ShrinkList(h.Ops, func(ops []APIOp) bool {
		c := h.clone()
		c.Ops = ops
		return try(c)
	}) {
		return true
	}
	// drop single messages from multi-message adds, shrink payloads and deltas
	for i, op := range h.Ops {
		if op.Op == "add" && len(op.Msgs) > 1 {
			for j := range op.Msgs {
				c := h.clone()
				nm := append([]core.Hex{}, op.Msgs[:j]...)
				nm = append(nm, op.Msgs[j+1:]...)
				c.Ops[i] = APIOp{Op: "add", Delta: op.Delta, Msgs: nm}
				if try(c) {
					return true
				}
			}
		}
		if op.Delta != 0 {
			for _, d := range []uint32{0, op.Delta / 2} {
				if d != op.Delta {
					c := h.clone()
					c.Ops[i].Delta = d
					if try(c) {
						return true
					}
				}
			}
		}
		for j, m := range op.Msgs {
			if ev, ok := ref.ParseLibMessage(0, m); ok && ev.Kind != ref.Chan && len(ev.Data) > 1 && !(ev.Kind == ref.Meta && isFixedMeta(ev.MetaType)) {
				ev.Data = ev.Data[:len(ev.Data)/2]
				c := h.clone()
				nm := append([]core.Hex{}, op.Msgs...)
				nm[j] = ev.LibBytes()
				c.Ops[i] = APIOp{Op: "add", Delta: op.Delta, Msgs: nm}
				if try(c) {
					return true
				}
			}
		}
	}
	if h.NoRS {
		c := h.clone()
		c.NoRS = false
		if try(c) {
			return true
		}
	}
	if h.FPS != 0 {
		c := h.clone()
		c.FPS, c.Sub, c.Metric = 0, 0, 96
		if try(c) {
			return true
		}
	}
	if h.Ctor != 0 {
		c := h.clone()
		c.Ctor = 0
		if try(c) {
			return true
		}
	}
	return false
}

func isFixedMeta(t byte) bool {
	for _, fm := range fixedMeta {
		if byte(fm[0]) == t {
			return true
		}
	}
	return false
}

// regionsOfWritten labels the bytes of a library-written file by structural region, using
// the reference decoding of the fault-free output.
func regionsOfWritten(f *ref.File, n int) []string {
	rg := make([]string, 0, n)
	for i := 0; i < 14 && len(rg) < n; i++ {
		rg = append(rg, "header")
	}
	for t, l := range f.ChunkLens {
		name := "track-first"
		if t > 0 {
			name = "track-later"
		}
		for i := 0; i < 8 && len(rg) < n; i++ {
			rg = append(rg, name+"-chunkhdr")
		}
		for i := 0; i < l && len(rg) < n; i++ {
			if i == l-1 {
				rg = append(rg, name+"-lastbyte")
			} else {
				rg = append(rg, name+"-body")
			}
		}
	}
	for len(rg) < n {
		rg = append(rg, "trailing")
	}
	return rg
}

// runBubble runs body in a synctest bubble. Goroutines of the code under test that are still
// parked when the scenario is over (a worker waiting for work, a reader on a pipe) make the
// bubble end with a "deadlock" panic once everything has been observed: goroutine leaks are
// not among the properties, so that panic is not a failure (the same rule as in worldcat).
func runBubble(env *core.Env, body func(*testing.T)) {
	defer func() {
		if p := recover(); p != nil {
			msg := fmt.Sprint(p)
			if strings.Contains(msg, "deadlock") && strings.Contains(msg, "blocked goroutines remain") {
				return
			}
			panic(p)
		}
	}()
	synctest.Test(env.T, body)
}
