package worlds

import (
	"bytes"
	"encoding/json"
	"fmt"
	"testing"
	"time"

	"gitlab.com/gomidi/midi/v2"
	"gitlab.com/gomidi/midi/v2/drivers"
	"gitlab.com/gomidi/midi/v2/drivers/testdrv"

	"verif/sim/core"
	"verif/sim/ref"
)

// LiveOpts are the listen options of a run.
type LiveOpts struct {
	ActiveSense bool   `json:"active_sense"`
	TimeCode    bool   `json:"timing_clock"`
	SysEx       bool   `json:"sysex"`
	BufSize     uint32 `json:"sysex_buffer_size"`
}

// SentMsg is a message the sender node put on the wire: its bytes in full form and the
// stream positions of its first and last byte.
type SentMsg struct {
	Bytes core.Hex `json:"bytes"`
	Start int      `json:"start"`
	End   int      `json:"end"`
}

// Live is one liveworld scenario: a byte stream on the wire, cut into delivery chunks
// with per-chunk time deltas, observed at one of the two real observation points.
type Live struct {
	Prop   string   `json:"prop"`  // C04 | C06 | C14
	Level  string   `json:"level"` // "reader": drivers.NewReader(...).EachMessage; "listen": midi.ListenTo on a testdrv loopback
	Opts   LiveOpts `json:"opts"`
	Stream core.Hex `json:"stream"`
	Chunks []int    `json:"chunks"`    // sizes, sum == len(Stream)
	Deltas []int32  `json:"deltas_ms"` // one per chunk
	// Sent lists the well-formed messages of the stream (C04/C14: the whole stream;
	// C06: the suffix after the garbage prefix).
	Sent []SentMsg `json:"sent,omitempty"`
	// Prefix is the length of the garbage prefix (C06; 0 = pure noise stream when Sent is empty).
	Prefix int    `json:"prefix,omitempty"`
	Noise  string `json:"noise,omitempty"` // kind of noise generated (informational)
	// Resets (level "reader" only): chunk indices before which Reader.Reset() is called; the
	// decoder must then behave like a fresh one (time restarts at zero).
	Resets []int `json:"resets,omitempty"`
	// Pre (level "listen" only): an earlier ListenTo on the same port with these options,
	// stopped or not before the observed listener is attached.
	Pre        *LiveOpts `json:"pre,omitempty"`
	PreStopped bool      `json:"pre_stopped,omitempty"`
	// Decoy (level "listen" only): a second, independent driver instance on which a listener
	// with these options is attached after the observed one; it receives nothing.
	Decoy *LiveOpts `json:"decoy,omitempty"`
}

func (s *Live) resetBefore(i int) bool {
	for _, r := range s.Resets {
		if r == i {
			return true
		}
	}
	return false
}

type delivered struct {
	bytes []byte
	alias []byte // the slice exactly as handed to the listener (not copied)
	isNil bool
	ts    int32
	chunk int
}

type liveObs struct {
	refused  bool // the observed Listen was refused because an earlier listener is still active
	got      []delivered
	panicked bool
	panicMsg string
	errs     int
}

func (s *Live) chunkTimes() (starts []int, times []int32) {
	pos := 0
	var t int32
	for i, n := range s.Chunks {
		starts = append(starts, pos)
		pos += n
		if i < len(s.Deltas) {
			t += s.Deltas[i]
		}
		times = append(times, t)
	}
	return
}

func (s *Live) chunkOf(pos int) int {
	p := 0
	for i, n := range s.Chunks {
		if pos < p+n {
			return i
		}
		p += n
	}
	return len(s.Chunks) - 1
}

// observe runs the stream through the real decoder at the scenario's observation point.
func (s *Live) observe(env *core.Env, opts LiveOpts) (obs liveObs) {
	chunks := make([][]byte, len(s.Chunks))
	pos := 0
	for i, n := range s.Chunks {
		chunks[i] = s.Stream[pos : pos+n]
		pos += n
	}
	cur := 0
	if s.Level == "reader" {
		cfg := drivers.ListenConfig{TimeCode: opts.TimeCode, ActiveSense: opts.ActiveSense, SysEx: opts.SysEx, SysExBufferSize: opts.BufSize,
			OnErr: func(error) { obs.errs++ }}
		func() {
			defer func() {
				if p := recover(); p != nil {
					obs.panicked, obs.panicMsg = true, fmt.Sprint(p)
				}
			}()
			rd := drivers.NewReader(cfg, func(b []byte, ts int32) {
				obs.got = append(obs.got, delivered{bytes: append([]byte{}, b...), alias: b, isNil: b == nil, ts: ts, chunk: cur})
			})
			for i, c := range chunks {
				cur = i
				if s.resetBefore(i) {
					rd.Reset()
				}
				rd.EachMessage(c, s.Deltas[i])
			}
		}()
		return obs
	}
	// "listen": public API on the in-memory loopback, inside a bubble so that the
	// driver's time.Now() calls read the simulated clock.
	body := func(t *testing.T) {
		defer func() {
			if p := recover(); p != nil {
				obs.panicked, obs.panicMsg = true, fmt.Sprint(p)
			}
		}()
		drv := testdrv.New("sim")
		ins, _ := drv.Ins()
		outs, _ := drv.Outs()
		in, out := ins[0], outs[0]
		if err := out.Open(); err != nil {
			panic(err)
		}
		var o []midi.Option
		if opts.ActiveSense {
			o = append(o, midi.UseActiveSense())
		}
		if opts.TimeCode {
			o = append(o, midi.UseTimeCode())
		}
		if opts.SysEx {
			o = append(o, midi.UseSysEx())
		}
		o = append(o, midi.SysExBufferSize(opts.BufSize), midi.HandleError(func(error) { obs.errs++ }))
		if s.Pre != nil {
			var po []midi.Option
			if s.Pre.ActiveSense {
				po = append(po, midi.UseActiveSense())
			}
			if s.Pre.TimeCode {
				po = append(po, midi.UseTimeCode())
			}
			if s.Pre.SysEx {
				po = append(po, midi.UseSysEx())
			}
			po = append(po, midi.SysExBufferSize(s.Pre.BufSize))
			pstop, perr := midi.ListenTo(in, func(midi.Message, int32) {}, po...)
			if perr != nil {
				panic(perr)
			}
			if s.PreStopped {
				pstop()
			}
		}
		stop, err := midi.ListenTo(in, func(m midi.Message, ts int32) {
			obs.got = append(obs.got, delivered{bytes: append([]byte{}, m...), alias: m, isNil: m == nil, ts: ts, chunk: cur})
		}, o...)
		if err != nil && s.Pre != nil && !s.PreStopped {
			// a driver may refuse a second listener while the first is active: then this
			// scenario says nothing about the options
			obs.refused = true
			return
		}
		if err != nil {
			panic(err)
		}
		if s.Decoy != nil {
			other := testdrv.New("decoy")
			oins, _ := other.Ins()
			var po []midi.Option
			if s.Decoy.ActiveSense {
				po = append(po, midi.UseActiveSense())
			}
			if s.Decoy.TimeCode {
				po = append(po, midi.UseTimeCode())
			}
			if s.Decoy.SysEx {
				po = append(po, midi.UseSysEx())
			}
			if _, derr := midi.ListenTo(oins[0], func(midi.Message, int32) {}, po...); derr != nil {
				panic(derr)
			}
		}
		for i, c := range chunks {
			cur = i
			drv.Sleep(time.Duration(s.Deltas[i]) * time.Millisecond)
			if err := out.Send(c); err != nil {
				panic(fmt.Sprintf("Send failed: %v", err))
			}
		}
		stop()
	}
	if env != nil && env.T != nil {
		runBubble(env, body)
	} else {
		body(nil)
	}
	return obs
}

// retained checks that a message a listener kept is still what was delivered: the decoder
// must not hand out memory it overwrites later (e.g. a reused sysex buffer).
func (s *Live) retained(obs liveObs) []core.Violation {
	for i, d := range obs.got {
		if !bytes.Equal(d.alias, d.bytes) {
			return []core.Violation{core.V("delivery", "mutated-after-delivery:"+msgClass(d.bytes), "message %d was delivered as % X; the slice the listener received reads % X after later messages arrived (stream %s chunks %v)", i, d.bytes, d.alias, core.Trunc(core.HexStr(s.Stream), 300), core.Trunc(fmt.Sprint(s.Chunks), 100))}
		}
	}
	return nil
}

// matches compares a delivered message with the expected bytes. At the raw reader level a
// 1-data-byte message may carry one trailing zero byte of padding (internal callback
// representation); at the public level equality is exact.
func (s *Live) matches(d delivered, want []byte) bool {
	if d.isNil {
		return false
	}
	if bytes.Equal(d.bytes, want) {
		return true
	}
	if s.Level == "reader" && len(d.bytes) > len(want) && bytes.Equal(d.bytes[:len(want)], want) {
		for _, b := range d.bytes[len(want):] {
			if b != 0 {
				return false
			}
		}
		return len(d.bytes) <= 3
	}
	return false
}

// wellFormed checks a delivered message on its own.
func (s *Live) wellFormed(d delivered, bufsize int) string {
	if d.isNil || len(d.bytes) == 0 {
		return "empty (nil) message delivered"
	}
	b := d.bytes
	st := b[0]
	if st < 0x80 {
		return fmt.Sprintf("message % X does not start with a status byte", b)
	}
	if st == 0xF0 {
		if len(b) < 2 || b[len(b)-1] != 0xF7 {
			return fmt.Sprintf("sysex % X does not end with F7", b)
		}
		for _, x := range b[1 : len(b)-1] {
			if x >= 0x80 {
				return fmt.Sprintf("sysex contains non-data byte %02X", x)
			}
		}
		if len(b) > bufsize {
			return fmt.Sprintf("sysex of %d bytes delivered although buffer size is %d", len(b), bufsize)
		}
		return ""
	}
	want := -1
	switch {
	case st >= 0xF8:
		want = 0
	case st == 0xF6:
		want = 0
	case st == 0xF1 || st == 0xF3:
		want = 1
	case st == 0xF2:
		want = 2
	case st == 0xF4 || st == 0xF5 || st == 0xF7:
		return fmt.Sprintf("message with status %02X delivered (% X)", st, b)
	case st&0xF0 == 0xC0 || st&0xF0 == 0xD0:
		want = 1
	default:
		want = 2
	}
	n := len(b) - 1
	if s.Level == "reader" && n > want && n <= 2 {
		for _, x := range b[1+want:] {
			if x != 0 {
				return fmt.Sprintf("message % X: wrong length for status %02X", b, st)
			}
		}
		n = want
	}
	if n != want {
		return fmt.Sprintf("message % X has %d data bytes, status %02X takes %d", b, n, st, want)
	}
	for _, x := range b[1 : 1+want] {
		if x >= 0x80 {
			return fmt.Sprintf("message % X carries a status byte as data", b)
		}
	}
	return ""
}

func (o LiveOpts) bufsize() int {
	if o.BufSize == 0 {
		return 1024
	}
	return int(o.BufSize)
}

// model runs refrx over the same chunks.
func (s *Live) model(opts LiveOpts, st *core.Stats) []ref.RxMsg {
	rx := &ref.Rx{SysEx: opts.SysEx, BufSize: int(opts.BufSize)}
	var out []ref.RxMsg
	pos := 0
	prevClass := "start"
	for i, n := range s.Chunks {
		c := s.Stream[pos : pos+n]
		pos += n
		if s.Level == "reader" && s.resetBefore(i) {
			rx = &ref.Rx{SysEx: opts.SysEx, BufSize: int(opts.BufSize)}
		}
		if st != nil && len(c) <= 256 {
			// feed byte-wise to record (state, class, class) transitions
			for j, b := range c {
				cl := ref.ByteClass(b)
				st.ReachKey(rx.State() + "|" + prevClass + "|" + cl)
				prevClass = cl
				d := int32(0)
				if j == 0 {
					d = s.Deltas[i]
				}
				out = append(out, rx.Feed([]byte{b}, d, i)...)
			}
			if len(c) == 0 {
				out = append(out, rx.Feed(nil, s.Deltas[i], i)...)
			}
		} else {
			out = append(out, rx.Feed(c, s.Deltas[i], i)...)
		}
	}
	return out
}

func filterOpts(ms []ref.RxMsg, o LiveOpts) []ref.RxMsg {
	var out []ref.RxMsg
	for _, m := range ms {
		switch {
		case m.Bytes[0] == 0xFE && !o.ActiveSense:
		case m.Bytes[0] == 0xF8 && !o.TimeCode:
		case m.Bytes[0] == 0xF0 && !o.SysEx:
		default:
			out = append(out, m)
		}
	}
	return out
}

func dropUndefinedRT(ms []ref.RxMsg) []ref.RxMsg {
	var out []ref.RxMsg
	for _, m := range ms {
		if m.Bytes[0] == 0xF9 || m.Bytes[0] == 0xFD {
			continue
		}
		out = append(out, m)
	}
	return out
}

func dropUndefinedRTd(ds []delivered) []delivered {
	var out []delivered
	for _, d := range ds {
		if len(d.bytes) >= 1 && (d.bytes[0] == 0xF9 || d.bytes[0] == 0xFD) {
			continue
		}
		out = append(out, d)
	}
	return out
}

func stateKeyOfByte(b byte) string { return ref.ByteClass(b) }

func (s *Live) Size() int { return len(s.Stream) + len(s.Chunks) }

func (s *Live) clone() *Live {
	c := *s
	c.Stream = append(core.Hex{}, s.Stream...)
	c.Chunks = append([]int{}, s.Chunks...)
	c.Deltas = append([]int32{}, s.Deltas...)
	c.Sent = append([]SentMsg{}, s.Sent...)
	c.Resets = append([]int{}, s.Resets...)
	return &c
}

// removeRange deletes stream bytes [a,b) and fixes chunks, sent list and prefix.
func (s *Live) removeRange(a, b int) *Live {
	c := s.clone()
	c.Stream = append(append(core.Hex{}, s.Stream[:a]...), s.Stream[b:]...)
	// chunks
	var chunks []int
	var deltas []int32
	pos := 0
	var carry int32
	for i, n := range s.Chunks {
		lo, hi := pos, pos+n
		pos = hi
		cut := overlap(lo, hi, a, b)
		if n-cut > 0 {
			chunks = append(chunks, n-cut)
			deltas = append(deltas, s.Deltas[i]+carry)
			carry = 0
		} else {
			carry += s.Deltas[i]
		}
	}
	c.Chunks, c.Deltas = chunks, deltas
	var sent []SentMsg
	for _, m := range s.Sent {
		if m.End < a {
			sent = append(sent, m)
		} else if m.Start >= a && m.End < b {
			continue // removed together with its bytes
		} else if m.Start >= b {
			m.Start -= b - a
			m.End -= b - a
			sent = append(sent, m)
		} else {
			return nil // would cut a sent message in pieces
		}
	}
	c.Sent = sent
	if s.Prefix > 0 {
		c.Prefix = s.Prefix - overlap(0, s.Prefix, a, b)
	}
	return c
}

func overlap(lo, hi, a, b int) int {
	if a > lo {
		lo = a
	}
	if b < hi {
		hi = b
	}
	if hi > lo {
		return hi - lo
	}
	return 0
}

func (s *Live) Shrinks(try func(core.Scenario) bool) bool {
	// 1. drop whole sent messages (keeps the stream well-formed where it was) - only when
	//    the following message does not depend on it for running status
	for i := len(s.Sent) - 1; i >= 0; i-- {
		if core.ShrinkOver() {
			return false
		}
		m := s.Sent[i]
		// only messages that are contiguous on the wire (no interleaved real-time)
		if c := s.removeRange(m.Start, m.End+1); c != nil && s.stillWellFormed(c) {
			if try(c) {
				return true
			}
		}
	}
	// 2. drop runs of prefix / noise bytes
	limit := len(s.Stream)
	if len(s.Sent) > 0 {
		limit = s.Prefix
	}
	if limit > 0 {
		for size := limit; size >= 1; size /= 2 {
			for a := 0; a+size <= limit; a += size {
				if core.ShrinkOver() {
					return false
				}
				if c := s.removeRange(a, a+size); c != nil && try(c) {
					return true
				}
			}
			if size == 1 {
				break
			}
		}
	}
	// 3. merge chunks
	for i := 0; i+1 < len(s.Chunks); i++ {
		if core.ShrinkOver() {
			return false
		}
		c := s.clone()
		c.Chunks = append(append([]int{}, s.Chunks[:i]...), s.Chunks[i]+s.Chunks[i+1])
		c.Chunks = append(c.Chunks, s.Chunks[i+2:]...)
		c.Deltas = append(append([]int32{}, s.Deltas[:i]...), s.Deltas[i]+s.Deltas[i+1])
		c.Deltas = append(c.Deltas, s.Deltas[i+2:]...)
		if try(c) {
			return true
		}
	}
	// 4. zero deltas
	for i, d := range s.Deltas {
		if core.ShrinkOver() {
			return false
		}
		if d != 0 {
			c := s.clone()
			c.Deltas[i] = 0
			if try(c) {
				return true
			}
		}
	}
	if len(s.Resets) > 0 {
		c := s.clone()
		c.Resets = nil
		if try(c) {
			return true
		}
	}
	if s.Pre != nil {
		c := s.clone()
		c.Pre = nil
		if try(c) {
			return true
		}
	}
	if s.Decoy != nil {
		c := s.clone()
		c.Decoy = nil
		if try(c) {
			return true
		}
	}
	// 5. simpler options / level
	if s.Level == "listen" && len(s.Resets) == 0 {
		c := s.clone()
		c.Level = "reader"
		if try(c) {
			return true
		}
	}
	if s.Opts.BufSize != 0 && s.Prop != "C04" {
		c := s.clone()
		c.Opts.BufSize = 0
		if try(c) {
			return true
		}
	}
	return false
}

// stillWellFormed re-derives the expected message list from the reduced stream with the
// reference receiver and accepts the reduction only if it equals the reduced Sent list
// (dropping a message that carried the running status for its successor is refused).
func (s *Live) stillWellFormed(c *Live) bool {
	if len(c.Sent) == 0 && c.Prefix == 0 && len(c.Stream) > 0 {
		return false
	}
	all := LiveOpts{ActiveSense: true, TimeCode: true, SysEx: true, BufSize: c.Opts.BufSize}
	// only the suffix after the prefix
	rx := &ref.Rx{SysEx: true, BufSize: int(all.BufSize)}
	got := rx.Feed(c.Stream[c.Prefix:], 0, 0)
	if len(got) != len(c.Sent) {
		return false
	}
	for i := range got {
		if !bytes.Equal(got[i].Bytes, c.Sent[i].Bytes) {
			return false
		}
	}
	return true
}

type liveWorld struct{ prop string }

func (w liveWorld) Decode(raw json.RawMessage) (core.Scenario, error) {
	var s Live
	if err := json.Unmarshal(raw, &s); err != nil {
		return nil, err
	}
	n := 0
	for _, c := range s.Chunks {
		n += c
	}
	if n != len(s.Stream) || len(s.Deltas) != len(s.Chunks) {
		return nil, fmt.Errorf("chunks/deltas do not match the stream")
	}
	return &s, nil
}

// ---------------------------------------------------------------------------
// The sender node.

var rtDefined = []byte{0xF8, 0xFA, 0xFB, 0xFC, 0xFE, 0xFF}

type sender struct {
	r      *core.Rand
	stream []byte
	sent   []SentMsg
	rs     byte // running status valid on the wire
	rtRate int  // 1/rtRate chance of a real-time byte before any byte (0 = never)
	elide  int  // elide chance in thirds
}

func (sd *sender) maybeRT() {
	for sd.rtRate > 0 && sd.r.Chance(1, sd.rtRate) {
		b := rtDefined[sd.r.Intn(len(rtDefined))]
		sd.sent = append(sd.sent, SentMsg{Bytes: core.Hex{b}, Start: len(sd.stream), End: len(sd.stream)})
		sd.stream = append(sd.stream, b)
	}
}

// put serialises one message, eliding the status where legal and interleaving real-time.
func (sd *sender) put(m []byte) {
	start := -1
	idx := len(sd.sent)
	sd.sent = append(sd.sent, SentMsg{Bytes: append(core.Hex{}, m...)})
	wire := m
	st := m[0]
	if st >= 0x80 && st <= 0xEF {
		if sd.rs == st && sd.r.Chance(sd.elide, 3) {
			wire = m[1:]
		}
		sd.rs = st
	} else if st >= 0xF0 && st <= 0xF7 {
		sd.rs = 0
	}
	for i, b := range wire {
		if i > 0 {
			// real-time bytes inside the message: they are delivered first, so they are
			// inserted into the sent list before this message
			n0 := len(sd.sent)
			sd.maybeRT()
			if len(sd.sent) > n0 {
				// move the message entry behind the real-time entries
				me := sd.sent[idx]
				copy(sd.sent[idx:], sd.sent[idx+1:])
				sd.sent[len(sd.sent)-1] = me
				idx = len(sd.sent) - 1
			}
		}
		if start < 0 {
			start = len(sd.stream)
		}
		sd.stream = append(sd.stream, b)
	}
	sd.sent[idx].Start = start
	sd.sent[idx].End = len(sd.stream) - 1
}

func genChanMsg(r *core.Rand, prev byte) []byte {
	var st byte
	if prev >= 0x80 && prev <= 0xEF && r.Chance(1, 2) {
		st = prev
	} else {
		st = chanStatusKinds[r.Intn(7)] | byte(r.Intn(16))
	}
	n := 2
	if st&0xF0 == 0xC0 || st&0xF0 == 0xD0 {
		n = 1
	}
	d := r.Data7(n)
	if r.Chance(1, 6) {
		for i := range d {
			d[i] = byte(r.PickInt(0, 0x7F, 0x3F, 0x40))
		}
	}
	return append([]byte{st}, d...)
}

func genSysex(r *core.Rand, bufsize int, total int) []byte {
	if total < 2 {
		total = 2
	}
	b := []byte{0xF0}
	b = append(b, r.Data7(total-2)...)
	return append(b, 0xF7)
}

// genWellFormed produces a C04-domain stream.
func genWellFormed(r *core.Rand, opts LiveOpts, nMsgs int, withAS bool) (stream []byte, sent []SentMsg) {
	sd := &sender{r: r, rtRate: r.PickInt(0, 0, 4, 10, 30), elide: r.PickInt(0, 2, 3)}
	var prev byte
	bs := opts.bufsize()
	for i := 0; i < nMsgs; i++ {
		sd.maybeRT()
		switch r.Weighted(60, 15, 12, 13) {
		case 0:
			m := genChanMsg(r, prev)
			prev = m[0]
			sd.put(m)
		case 1:
			switch r.Intn(4) {
			case 0:
				sd.put([]byte{0xF1, r.Byte() & 0x7F})
			case 1:
				sd.put([]byte{0xF2, r.Byte() & 0x7F, r.Byte() & 0x7F})
			case 2:
				sd.put([]byte{0xF3, r.Byte() & 0x7F})
			default:
				sd.put([]byte{0xF6})
			}
			if r.Chance(1, 2) {
				// same channel status again right after: must be sent with explicit status
			} else {
				prev = 0
			}
		case 2:
			var total int
			switch r.Weighted(30, 40, 10, 10, 10) {
			case 0:
				total = 2
			case 1:
				total = r.Range(3, 12)
			case 2:
				total = bs
			case 3:
				total = bs - 1
			default:
				total = r.Range(2, bs)
			}
			if total > bs {
				total = bs
			}
			if bs > 3000 && r.Chance(1, 3) {
				// sizes around the steps at which a growing buffer would be enlarged
				total = r.PickInt(4096, 4097, 4098, 8192, 8193, 16385, 32769, 65535, 65536, 65537, bs)
				if total > bs {
					total = bs
				}
			} else if total > 3000 {
				total = 3000
			}
			if total >= 2 && bs >= 2 {
				sd.put(genSysex(r, bs, total))
			}
		default:
			b := rtDefined[r.Intn(len(rtDefined))]
			sd.sent = append(sd.sent, SentMsg{Bytes: core.Hex{b}, Start: len(sd.stream), End: len(sd.stream)})
			sd.stream = append(sd.stream, b)
		}
	}
	return sd.stream, sd.sent
}

func genChunks(r *core.Rand, n int) ([]int, []int32) {
	mode := r.Weighted(1, 2, 3, 4)
	if n > 8192 && (mode == 1 || mode == 2) {
		mode = 3 // long streams are not cut into tens of thousands of tiny chunks
	}
	chunks := r.Partition(n, mode)
	deltas := make([]int32, len(chunks))
	var total int64
	for i := range deltas {
		var d int32
		switch r.Weighted(40, 20, 25, 10, 5) {
		case 0:
			d = 0
		case 1:
			d = 1
		case 2:
			d = int32(r.Range(2, 50))
		case 3:
			d = int32(r.PickInt(999, 1000, 1001, 60000))
		default:
			d = int32(r.PickInt(1<<20, 1<<24, 3600000))
		}
		if total+int64(d) > 1<<30 {
			d = 0
		}
		total += int64(d)
		deltas[i] = d
	}
	return chunks, deltas
}

var bufSizes = []uint32{0, 2, 3, 4, 5, 8, 16, 64, 256, 1024, 5000, 0, 16, 64, 256, 1024, 20000, 70000}

// ---------------------------------------------------------------------------
// C04

func (w liveWorld) Gen(seed uint64, tier string) core.Scenario {
	r := core.NewRand(seed)
	switch w.prop {
	case "C06":
		return genNoise(r, tier)
	case "C14":
		return genC14(r, tier)
	}
	s := &Live{Prop: "C04", Level: "reader"}
	if r.Chance(1, 3) {
		s.Level = "listen"
	}
	s.Opts = LiveOpts{ActiveSense: true, TimeCode: true, SysEx: true, BufSize: bufSizes[r.Intn(len(bufSizes))]}
	n := r.PickInt(1, 2, 3, 5, 10, 25)
	if tier == "thorough" && r.Chance(1, 5) {
		n = 100
	}
	if r.Chance(1, 600) {
		n = 3000 // thousands of messages (and chunks) on one listener
	}
	if s.Opts.bufsize() >= 20000 && n > 3 && n < 3000 {
		n = 3 // big buffers are for big sysex messages: keep the rest of the stream short
	}
	s.Stream, s.Sent = genWellFormed(r, s.Opts, n, true)
	s.Chunks, s.Deltas = genChunks(r, len(s.Stream))
	return s
}

func (s *Live) Run(env *core.Env, st *core.Stats) []core.Violation {
	switch s.Prop {
	case "C06":
		return s.runC06(env, st)
	case "C14":
		return s.runC14(env, st)
	}
	return s.runC04(env, st)
}

// expectedFromSent computes, from the sender's own list, what must be delivered and when.
type expectMsg struct {
	bytes []byte
	chunk int
	tMin  int32
	tMax  int32
}

func (s *Live) expectedFromSent() []expectMsg {
	_, times := s.chunkTimes()
	// deliveries happen in order of the last byte
	idx := make([]int, len(s.Sent))
	for i := range idx {
		idx[i] = i
	}
	// Sent is already ordered by End (sender keeps real-time bytes inside a message before it)
	var out []expectMsg
	for _, i := range idx {
		m := s.Sent[i]
		ce := s.chunkOf(m.End)
		e := expectMsg{bytes: m.Bytes, chunk: ce, tMin: times[ce], tMax: times[ce]}
		if m.Bytes[0] == 0xF0 {
			e.tMin = times[s.chunkOf(m.Start)]
		}
		out = append(out, e)
	}
	return out
}

func (s *Live) liveEvidence(st *core.Stats) {
	if st == nil {
		return
	}
	h := core.NewHash().Bytes(s.Stream).Str(s.Level).Int(int(s.Opts.BufSize))
	for _, c := range s.Chunks {
		h = h.Int(c)
	}
	for _, d := range s.Deltas {
		h = h.Int(int(d))
	}
	if len(s.Chunks) > 1 || len(s.Sent) > 1 || s.Prefix > 0 {
		st.Distinct(h)
	}
	_, times := s.chunkTimes()
	if len(times) > 0 {
		st.SimTime(time.Duration(times[len(times)-1]) * time.Millisecond)
	}
	st.FaultN("wire-chunk-boundary", int64(len(s.Chunks)-1))
	for _, m := range s.Sent {
		if m.Start != m.End && s.chunkOf(m.Start) != s.chunkOf(m.End) {
			st.Probe("chunk-boundary-inside-message")
		}
		full := len(m.Bytes)
		onWire := m.End - m.Start + 1
		if m.Bytes[0] >= 0x80 && m.Bytes[0] <= 0xEF {
			if onWire < full {
				st.Probe("status-elided-on-wire")
				if full == 2 {
					st.Probe("1-data-byte-message-under-running-status")
				}
			}
			if onWire > full {
				st.Probe("real-time-inside-channel-message")
			}
		}
		if m.Bytes[0] == 0xF0 {
			if onWire > full {
				st.Probe("real-time-inside-sysex")
			}
			if full == s.Opts.bufsize() {
				st.Probe("sysex-length==buffer-size")
			}
		}
	}
	for i := 1; i < len(s.Sent); i++ {
		a, b := s.Sent[i-1].Bytes[0], s.Sent[i].Bytes[0]
		if a >= 0xF1 && a <= 0xF6 && b >= 0x80 && b <= 0xEF {
			st.Probe("channel-message-after-system-common")
		}
	}
	st.ReachKey("level-" + s.Level)
	st.Sample(s)
}

func (s *Live) runC04(env *core.Env, st *core.Stats) (vs []core.Violation) {
	st.Eval(1)
	s.liveEvidence(st)
	want := s.expectedFromSent()
	// self-check: the reference receiver agrees with the sender on well-formed streams
	mod := s.model(s.Opts, st)
	if len(mod) != len(want) {
		return []core.Violation{core.V("harness-panic", "refrx", "refrx delivers %d messages, sender sent %d (stream % X)", len(mod), len(want), []byte(s.Stream))}
	}
	for i := range mod {
		if !bytes.Equal(mod[i].Bytes, want[i].bytes) || mod[i].Chunk != want[i].chunk || mod[i].T != want[i].tMax || mod[i].T0 != want[i].tMin {
			return []core.Violation{core.V("harness-panic", "refrx", "refrx message %d = % X chunk %d t %d..%d, sender says % X chunk %d t %d..%d", i, mod[i].Bytes, mod[i].Chunk, mod[i].T0, mod[i].T, want[i].bytes, want[i].chunk, want[i].tMin, want[i].tMax)}
		}
	}
	obs := s.observe(env, s.Opts)
	if obs.panicked {
		return []core.Violation{core.V("panic", panicKey(obs.panicMsg), "decoder panicked: %s (stream % X chunks %v)", obs.panicMsg, []byte(s.Stream), s.Chunks)}
	}
	if v := s.retained(obs); v != nil {
		return v
	}
	return s.compare(obs.got, want, "delivery")
}

// compare checks content, order, count, delivery moment and time stamp.
func (s *Live) compare(got []delivered, want []expectMsg, clause string) (vs []core.Violation) {
	for i := 0; i < len(got) && i < len(want); i++ {
		g, w := got[i], want[i]
		if !s.matches(g, w.bytes) {
			return []core.Violation{core.V(clause, "content:"+msgClass(w.bytes), "message %d: sent % X, listener received % X (nil=%v); stream % X chunks %v", i, w.bytes, g.bytes, g.isNil, []byte(s.Stream), s.Chunks)}
		}
		if g.chunk != w.chunk {
			return []core.Violation{core.V(clause, "moment:"+msgClass(w.bytes), "message %d (% X): its last byte arrives in chunk %d but it was delivered during chunk %d", i, w.bytes, w.chunk, g.chunk)}
		}
		if g.ts < w.tMin || g.ts > w.tMax {
			return []core.Violation{core.V("timestamp", "ts:"+msgClass(w.bytes), "message %d (% X): time stamp %d, expected %d..%d (accumulated delivery time); chunks %v deltas %v", i, w.bytes, g.ts, w.tMin, w.tMax, s.Chunks, s.Deltas)}
		}
	}
	if len(got) != len(want) {
		key := "missing"
		var which []byte
		if len(got) > len(want) {
			key = "extra"
			which = got[len(want)].bytes
		} else {
			which = want[len(got)].bytes
		}
		return []core.Violation{core.V(clause, key+":"+msgClass(which), "%d messages sent, %d received (first %s: % X); stream % X chunks %v", len(want), len(got), key, which, []byte(s.Stream), s.Chunks)}
	}
	return nil
}

func msgClass(b []byte) string {
	if len(b) == 0 {
		return "nil"
	}
	switch {
	case b[0] < 0x80:
		return "data"
	case b[0] <= 0xEF:
		if b[0]&0xF0 == 0xC0 || b[0]&0xF0 == 0xD0 {
			return "chan1"
		}
		return "chan2"
	case b[0] >= 0xF8:
		return "realtime"
	case b[0] == 0xF0:
		return "sysex"
	}
	return fmt.Sprintf("%02X", b[0])
}
