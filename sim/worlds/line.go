package worlds

import (
	"bytes"
	"encoding/json"
	"fmt"
	"strconv"

	"gitlab.com/gomidi/midi/v2/drivers/midicat"

	"verif/sim/core"
	"verif/sim/simio"
)

// LineRec is one line put on the stream. Text is literal (hex, so that arbitrary bytes
// survive JSON); good lines are produced by the reference encoder, bad ones by one of
// the named corruptions.
type LineRec struct {
	TS      int32    `json:"ts"`
	Msg     core.Hex `json:"msg,omitempty"`
	Corrupt string   `json:"corrupt,omitempty"`
	Text    core.Hex `json:"text"`
}

// LineSc is a lineworld scenario (C19).
type LineSc struct {
	Lines   []LineRec `json:"lines"`
	Frags   []int     `json:"frags"`
	EOFWith bool      `json:"eof_with_data"`
}

// refLineEncode is the reference encoder of the "%d %X\n" record format.
func refLineEncode(ts int32, msg []byte) []byte {
	const hexd = "0123456789ABCDEF"
	out := []byte(strconv.FormatInt(int64(ts), 10))
	out = append(out, ' ')
	for _, b := range msg {
		out = append(out, hexd[b>>4], hexd[b&15])
	}
	return append(out, '\n')
}

// refLineParse is the strict reference parser of one physical line (without its '\n').
func refLineParse(line []byte) (ts int32, msg []byte, ok bool) {
	sp := bytes.IndexByte(line, ' ')
	if sp <= 0 {
		return 0, nil, false
	}
	num := line[:sp]
	i := 0
	if num[0] == '-' {
		i = 1
	}
	if i >= len(num) {
		return 0, nil, false
	}
	for _, c := range num[i:] {
		if c < '0' || c > '9' {
			return 0, nil, false
		}
	}
	v, err := strconv.ParseInt(string(num), 10, 32)
	if err != nil {
		return 0, nil, false
	}
	hx := line[sp+1:]
	if len(hx) == 0 || len(hx)%2 != 0 {
		return 0, nil, false
	}
	msg = make([]byte, len(hx)/2)
	for j := range msg {
		hi, ok1 := upHex(hx[2*j])
		lo, ok2 := upHex(hx[2*j+1])
		if !ok1 || !ok2 {
			return 0, nil, false
		}
		msg[j] = hi<<4 | lo
	}
	return int32(v), msg, true
}

func upHex(c byte) (byte, bool) {
	switch {
	case c >= '0' && c <= '9':
		return c - '0', true
	case c >= 'A' && c <= 'F':
		return c - 'A' + 10, true
	}
	return 0, false
}

type lineWorld struct{}

func (lineWorld) Decode(raw json.RawMessage) (core.Scenario, error) {
	var s LineSc
	if err := json.Unmarshal(raw, &s); err != nil {
		return nil, err
	}
	return &s, nil
}

func genTS(r *core.Rand) int32 {
	switch r.Weighted(30, 30, 20, 20) {
	case 0:
		return 0
	case 1:
		return int32(r.Intn(100000))
	case 2:
		return int32(r.PickInt(1, -1, 2147483647, -2147483648, 2147483646, -2147483647, 1000000000, -1000000000))
	default:
		return int32(uint32(r.Uint64()))
	}
}

func (lineWorld) Gen(seed uint64, tier string) core.Scenario {
	r := core.NewRand(seed)
	s := &LineSc{}
	n := r.PickInt(1, 2, 3, 5, 10, 30)
	if tier == "thorough" && r.Chance(1, 5) {
		n = 120
	}
	withBad := r.Chance(1, 2)
	for i := 0; i < n; i++ {
		var mlen int
		switch r.Weighted(40, 30, 20, 10) {
		case 0:
			mlen = r.Range(1, 3)
		case 1:
			mlen = r.Range(4, 40)
		case 2:
			mlen = r.Range(41, 400)
		default:
			mlen = r.PickInt(1999, 2000, 1024, 1000, 2047, 2048, 2049, 4096, 5000)
		}
		msg := r.Bytes(mlen)
		if r.Chance(1, 4) { // leading zero nibbles / zero bytes / newline and space byte values
			msg[0] = byte(r.PickInt(0x00, 0x0A, 0x09, 0x20, 0x01, 0x0F))
		}
		ts := genTS(r)
		rec := LineRec{TS: ts, Msg: msg, Text: refLineEncode(ts, msg)}
		if withBad && r.Chance(1, 4) {
			t := append([]byte{}, rec.Text...)
			sp := bytes.IndexByte(t, ' ')
			switch r.Intn(5) {
			case 0: // odd hex length: drop one hex digit
				k := sp + 1 + r.Intn(len(t)-sp-2)
				t = append(t[:k], t[k+1:]...)
				rec.Corrupt = "odd-hex-length"
			case 1: // non-hex character
				k := sp + 1 + r.Intn(len(t)-sp-2)
				t[k] = "GZgxq.-_#"[r.Intn(9)]
				rec.Corrupt = "non-hex-char"
			case 2: // missing separator
				t = append(t[:sp], t[sp+1:]...)
				rec.Corrupt = "missing-separator"
			case 3: // missing terminator: the line runs into the next one
				t = t[:len(t)-1]
				rec.Corrupt = "missing-terminator"
			default: // empty hex field (odd/zero hex length)
				t = append(t[:sp+1], '\n')
				rec.Corrupt = "empty-hex"
			}
			rec.Text = t
		}
		s.Lines = append(s.Lines, rec)
	}
	total := 0
	for _, l := range s.Lines {
		total += len(l.Text)
	}
	s.Frags = r.Partition(total, r.Weighted(1, 2, 2, 3))
	s.EOFWith = r.Chance(1, 3)
	return s
}

func (s *LineSc) Size() int { return len(s.Lines) + len(s.Frags) }

func (s *LineSc) Shrinks(try func(core.Scenario) bool) bool {
	if core.ShrinkList(s.Lines, func(l []LineRec) bool {
		c := *s
		c.Lines = l
		c.Frags = nil
		return try(&c)
	}) {
		return true
	}
	for i, l := range s.Lines {
		if l.Corrupt == "" && len(l.Msg) > 1 {
			c := *s
			c.Lines = append([]LineRec{}, s.Lines...)
			m := l.Msg[:len(l.Msg)/2]
			c.Lines[i] = LineRec{TS: l.TS, Msg: m, Text: refLineEncode(l.TS, m)}
			c.Frags = nil
			if try(&c) {
				return true
			}
		}
		if l.Corrupt == "" && l.TS != 0 {
			c := *s
			c.Lines = append([]LineRec{}, s.Lines...)
			c.Lines[i] = LineRec{TS: 0, Msg: l.Msg, Text: refLineEncode(0, l.Msg)}
			c.Frags = nil
			if try(&c) {
				return true
			}
		}
	}
	if len(s.Frags) > 0 {
		c := *s
		c.Frags = nil
		if try(&c) {
			return true
		}
	}
	if s.EOFWith {
		c := *s
		c.EOFWith = false
		if try(&c) {
			return true
		}
	}
	return false
}

func (s *LineSc) Run(env *core.Env, st *core.Stats) (vs []core.Violation) {
	var stream []byte
	for _, l := range s.Lines {
		stream = append(stream, l.Text...)
	}
	st.Eval(1)
	// physical lines of the stream and what the format says about each
	type phys struct {
		start, end int // [start,end) includes the '\n' if present
		ok         bool
		ts         int32
		msg        []byte
		complete   bool
	}
	var lines []phys
	for p := 0; p < len(stream); {
		nl := bytes.IndexByte(stream[p:], '\n')
		if nl < 0 {
			lines = append(lines, phys{start: p, end: len(stream)})
			break
		}
		ph := phys{start: p, end: p + nl + 1, complete: true}
		ph.ts, ph.msg, ph.ok = refLineParse(stream[p : p+nl])
		lines = append(lines, ph)
		p += nl + 1
	}
	if st != nil {
		h := core.NewHash().Bytes(stream)
		for _, f := range s.Frags {
			h = h.Int(f)
		}
		if len(s.Lines) > 1 || len(s.Frags) > 1 {
			st.Distinct(h)
		}
		st.FaultN("stream-fragment-boundary", int64(len(s.Frags)))
		if s.EOFWith {
			st.Fault("data+EOF-in-one-read")
		}
		for _, l := range s.Lines {
			if l.Corrupt != "" {
				st.Fault("corrupt-line:" + l.Corrupt)
			}
			if len(l.Msg) >= 1999 {
				st.Probe("message>=1999-bytes")
			}
			if l.TS < 0 {
				st.Probe("negative-timestamp")
			}
			if len(l.Msg) > 0 && l.Msg[0] < 0x10 && l.Corrupt == "" {
				st.Probe("leading-zero-nibble")
			}
		}
		st.Sample(map[string]any{"stream": core.Trunc(string(stream), 300), "frags": core.Trunc(fmt.Sprint(s.Frags), 100), "eof_with_data": s.EOFWith})
	}

	fr := &simio.FragReader{Data: stream, Frags: append([]int{}, s.Frags...), EOFWith: s.EOFWith}
	type call struct {
		from, to int
		msg      []byte
		ts       int32
		err      error
	}
	var calls []call
	var pan callResult
	maxCalls := len(stream) + 8
	pan = guarded(libBudget, false, func() {
		for i := 0; i < maxCalls; i++ {
			from := fr.Pos()
			msg, ts, err := midicat.ReadAndConvert(fr)
			calls = append(calls, call{from: from, to: fr.Pos(), msg: msg, ts: ts, err: err})
			if err != nil && fr.Pos() >= len(stream) {
				return
			}
		}
	})
	desc := func() string {
		return fmt.Sprintf("stream %q frags %s eof_with_data=%v", core.Trunc(string(stream), 200), core.Trunc(fmt.Sprint(s.Frags), 60), s.EOFWith)
	}
	if pan.panicked || pan.timeout {
		return []core.Violation{core.V("panic", panicKey(pan.panicMsg), "ReadAndConvert panicked/hung: %s; %s", pan.panicMsg, desc())}
	}
	if len(calls) >= maxCalls {
		return []core.Violation{core.V("non-termination", "calls", "ReadAndConvert did not reach the end of the stream after %d calls; %s", len(calls), desc())}
	}
	// every successful call must have consumed exactly one well-formed physical line and
	// return that line's record
	okLine := map[int]int{}
	for ci, c := range calls {
		if c.err != nil {
			continue
		}
		var hit *phys
		hi := -1
		for i := range lines {
			if lines[i].start == c.from && lines[i].end == c.to {
				hit, hi = &lines[i], i
			}
		}
		switch {
		case hit == nil:
			return []core.Violation{core.V("framing", "spans-lines", "call %d returned record (%d, % X) after consuming stream bytes [%d,%d), which is not exactly one line; %s", ci, c.ts, core.Trunc(fmt.Sprintf("% X", c.msg), 60), c.from, c.to, desc())}
		case !hit.ok || !hit.complete:
			kind := "malformed-line-accepted"
			return []core.Violation{core.V("malformed-accepted", kind, "call %d returned record (%d, %s) for the malformed line %q; %s", ci, c.ts, core.Trunc(fmt.Sprintf("% X", c.msg), 60), core.Trunc(string(stream[hit.start:hit.end]), 80), desc())}
		case c.ts != hit.ts || !bytes.Equal(c.msg, hit.msg):
			key := "message"
			if c.ts != hit.ts {
				key = "timestamp"
			}
			return []core.Violation{core.V("lossless", key, "line %q decoded as (%d, %s), written was (%d, %s); %s", core.Trunc(string(stream[hit.start:hit.end]), 80), c.ts, core.Trunc(fmt.Sprintf("% X", c.msg), 60), hit.ts, core.Trunc(fmt.Sprintf("% X", hit.msg), 60), desc())}
		}
		okLine[hi]++
	}
	// every well-formed complete line must have been returned exactly once, in order
	for i, l := range lines {
		if l.ok && l.complete && okLine[i] != 1 {
			return []core.Violation{core.V("lossless", "record-lost", "record %q (line %d of %d) was returned %d times; %s", core.Trunc(string(stream[l.start:l.end]), 80), i, len(lines), okLine[i], desc())}
		}
	}
	// the last call reports the end of the stream as an error
	if len(calls) == 0 || calls[len(calls)-1].err == nil {
		return []core.Violation{core.V("end-of-stream", "no-error", "no error at end of stream; %s", desc())}
	}
	return nil
}
