package worlds

import (
	"bytes"
	"encoding/json"
	"fmt"
	"os"

	"gitlab.com/gomidi/midi/v2/smf"

	"verif/sim/core"
	"verif/sim/ref"
)

// Crash is the crash/corruption configuration of smfworld (C05).
//
// Mode "truncate": the writer/transfer of a valid file is crashed at every byte offset
// (the durable state is a prefix) and the restart reads what the disk holds.
// Mode "raw": an explicit byte string (a seeded corruption of a stored valid file, a splice
// of two files, or a random string) is read.
type Crash struct {
	Mode string   `json:"mode"`
	Src  *FileSrc `json:"src,omitempty"`
	// OnlyCut pins truncation to one offset (set by the shrinker); -1 = every offset.
	OnlyCut int      `json:"only_cut"`
	Raw     core.Hex `json:"raw,omitempty"`
	How     string   `json:"how,omitempty"` // which corruption produced Raw (informational)
	// Mode "manytracks": a header declaring Declared tracks followed by Have minimal track chunks.
	Declared int `json:"declared,omitempty"`
	Have     int `json:"have,omitempty"`
}

func manyTracksBytes(declared, have int) []byte {
	b := []byte{'M', 'T', 'h', 'd', 0, 0, 0, 6, 0, 1, byte(declared >> 8), byte(declared), 0, 96}
	for i := 0; i < have; i++ {
		b = append(b, 'M', 'T', 'r', 'k', 0, 0, 0, 4, 0, 0xFF, 0x2F, 0)
	}
	return b
}

type crashWorld struct{}

func (crashWorld) Gen(seed uint64, tier string) core.Scenario {
	r := core.NewRand(seed)
	if r.Chance(2, 5) {
		return &Crash{Mode: "truncate", Src: genFileSrc(r, tier), OnlyCut: -1}
	}
	// raw modes
	c := &Crash{Mode: "raw", OnlyCut: -1}
	if r.Chance(1, 150) {
		// very many (minimal) track chunks: counters of 16 bits and less are in reach
		n := r.PickInt(255, 256, 32767, 32768, 32769, 40000, 65535)
		have := r.PickInt(n, n, n-1, n+1, 32769, 33000)
		if have < 1 {
			have = 1
		}
		if have > 66000 {
			have = 66000
		}
		return &Crash{Mode: "manytracks", OnlyCut: -1, Declared: n, Have: have}
	}
	if r.Chance(1, 8) {
		c.Raw = r.Bytes(r.Range(0, 64))
		c.How = "random"
		if r.Chance(1, 2) && len(c.Raw) >= 14 { // random body behind a valid header start
			copy(c.Raw, []byte{'M', 'T', 'h', 'd', 0, 0, 0, 6, 0, byte(r.Intn(3)), 0, byte(r.Intn(3))})
			c.How = "random-after-header"
		}
		return c
	}
	base := genFileSrc(r, "quick").produce()
	if base.bad != "" || len(base.data) == 0 {
		c.Raw = r.Bytes(20)
		c.How = "random"
		return c
	}
	data := append([]byte{}, base.data...)
	nmut := r.Range(1, 3)
	for i := 0; i < nmut; i++ {
		pos := r.Intn(len(data))
		// bias to structural fields
		if r.Chance(1, 2) {
			cands := []int{}
			for j, rg := range base.regions {
				if j < len(data) {
					switch rg {
					case "header-len", "header-format", "header-ntrks", "header-division", "chunk-type", "chunk-len", "alien-len",
						"status", "meta-len", "sysex-len", "eot-type", "eot-len", "meta-type", "delta", "sysex-status", "meta-status",
						"header", "track-first-chunkhdr", "track-later-chunkhdr", "track-first-lastbyte":
						cands = append(cands, j)
					}
				}
			}
			if len(cands) > 0 {
				pos = cands[r.Intn(len(cands))]
			}
		}
		region := "?"
		if pos < len(base.regions) {
			region = base.regions[pos]
		}
		switch r.Intn(12) {
		case 11: // a 16-bit header field gets a boundary value (no tracks, 65535 tracks, division 0 or sign bit only, unknown format)
			hp := 8 + 2*r.Intn(3)
			if hp+2 <= len(data) {
				v := r.PickInt(0, 0, 1, 0xFFFF, 0x8000, 0x00FF, 0x0100, 3)
				data[hp], data[hp+1] = byte(v>>8), byte(v)
				c.How += "headerfield "
			}
		case 10: // two hostile lengths that agree with each other: a huge track length and a huge data length inside it
			hs := regionStarts(base.regions, len(data), "chunk-len", "track-first-chunkhdr", "track-later-chunkhdr")
			ls := regionPositions(base.regions, len(data), "meta-len", "sysex-len")
			if len(hs) > 0 {
				hp := hs[r.Intn(len(hs))]
				if base.regions[hp] != "chunk-len" {
					hp += 4
				}
				v := r.PickU32(0x7FFFFFFF, 0xFFFFFFFF, 0x10000000, 0x0FFFFFFF)
				if hp+4 <= len(data) {
					data[hp], data[hp+1], data[hp+2], data[hp+3] = byte(v>>24), byte(v>>16), byte(v>>8), byte(v)
				}
				lp := pos
				if len(ls) > 0 {
					lp = ls[r.Intn(len(ls))]
				}
				huge := [][]byte{{0xFF, 0xFF, 0xFF, 0x7F}, {0xC0, 0x80, 0x80, 0x00}, {0x8F, 0xFF, 0xFF, 0xFF, 0x7F}}[r.Intn(3)]
				if lp < len(data) {
					data = append(data[:lp], append(append([]byte{}, huge...), data[lp+1:]...)...)
				}
				c.How += "consistent-huge-lengths "
			}
		case 6: // a length byte becomes a small value: fixed-layout events (tempo, time signature, ...) get the wrong size
			lens := regionPositions(base.regions, len(data), "meta-len", "sysex-len", "eot-len")
			if len(lens) > 0 {
				pos = lens[r.Intn(len(lens))]
				region = base.regions[pos]
			}
			data[pos] = byte(r.Intn(6))
			c.How += "smalllen@" + region + " "
		case 7: // a meta type becomes one with a fixed layout
			ts := regionPositions(base.regions, len(data), "meta-type", "eot-type")
			if len(ts) > 0 {
				pos = ts[r.Intn(len(ts))]
				region = base.regions[pos]
				data[pos] = byte(r.PickInt(0x51, 0x58, 0x59, 0x54, 0x00, 0x20, 0x21, 0x2F, 0x7F, 0x01))
				c.How += "metatype@" + region + " "
			}
		case 8, 9: // a 32-bit length word gets a crafted value (also negative as int32, also pointing back into the file)
			ws := regionStarts(base.regions, len(data), "chunk-len", "alien-len", "header-len", "track-first-chunkhdr", "track-later-chunkhdr")
			if len(ws) > 0 {
				pos = ws[r.Intn(len(ws))]
				region = base.regions[pos]
				if region == "track-first-chunkhdr" || region == "track-later-chunkhdr" {
					pos += 4 // the length word follows the 4 type bytes
				}
				back := uint32(-(int32(pos) + 4))
				v := r.PickU32(0, 1, 5, 7, 0x7FFFFFFF, 0x80000000, 0xFFFFFFFF, 0xFFFFFFF8, 0xFFFFFFF0, back, back-8, back+14, uint32(len(data)), uint32(r.Uint64()))
				if pos+4 <= len(data) {
					data[pos], data[pos+1], data[pos+2], data[pos+3] = byte(v>>24), byte(v>>16), byte(v>>8), byte(v)
					c.How += "len32@" + region + " "
					if pos >= 8 && r.Chance(1, 2) { // make it an unknown chunk so that the length is used for skipping
						data[pos-1] ^= 0x20
						c.How += "alienize "
					}
				}
			}
		case 0:
			data[pos] ^= 1 << uint(r.Intn(8))
			c.How += "bitflip@" + region + " "
		case 1:
			data[pos] = byte(r.PickInt(0x00, 0x7F, 0x80, 0xFF, 0xF0, 0xF7, 0xF1, 0xF8, 0x2F, int(r.Byte())))
			c.How += "overwrite@" + region + " "
		case 2: // declared huge length: overwrite 4 bytes with 0xFF / VLQ max
			for j := 0; j < 4 && pos+j < len(data); j++ {
				data[pos+j] = byte(r.PickInt(0xFF, 0x8F, 0xFF, 0x7F))
			}
			c.How += "hugelen@" + region + " "
		case 3: // insert run
			ins := r.Bytes(r.Range(1, 8))
			data = append(data[:pos], append(ins, data[pos:]...)...)
			c.How += "insert@" + region + " "
		case 4: // delete run
			n := r.Range(1, 8)
			if pos+n > len(data) {
				n = len(data) - pos
			}
			data = append(data[:pos], data[pos+n:]...)
			c.How += "delete@" + region + " "
			if len(data) == 0 {
				data = []byte{0}
			}
		default: // splice with another file
			other := genFileSrc(r, "quick").produce()
			if other.bad == "" && len(other.data) > 0 {
				q := r.Intn(len(other.data))
				data = append(data[:pos], other.data[q:]...)
				c.How += "splice@" + region + " "
			}
		}
		if len(data) == 0 {
			data = []byte{0}
		}
	}
	c.Raw = data
	return c
}

func (crashWorld) Decode(raw json.RawMessage) (core.Scenario, error) {
	var s Crash
	if err := json.Unmarshal(raw, &s); err != nil {
		return nil, err
	}
	if s.Mode == "truncate" && s.Src == nil {
		return nil, fmt.Errorf("no source")
	}
	return &s, nil
}

func (s *Crash) Size() int {
	if s.Mode == "manytracks" {
		return s.Have
	}
	if s.Mode == "raw" {
		return len(s.Raw)
	}
	n := s.Src.size()
	if s.OnlyCut < 0 {
		n++
	}
	return n
}

func (s *Crash) Shrinks(try func(core.Scenario) bool) bool {
	if s.Mode == "manytracks" {
		for _, h := range []int{s.Have / 2, s.Have - 1000, s.Have - 1} {
			if h >= 1 && h < s.Have {
				c := *s
				c.Have = h
				if try(&c) {
					return true
				}
			}
		}
		return false
	}
	if s.Mode == "raw" {
		if core.ShrinkList([]byte(s.Raw), func(b []byte) bool {
			c := *s
			c.Raw = b
			return try(&c)
		}) {
			return true
		}
		// simplify bytes
		for i, b := range s.Raw {
			for _, nb := range []byte{0x00, 0x7F, 0x80} {
				if nb < b {
					c := *s
					c.Raw = append(core.Hex{}, s.Raw...)
					c.Raw[i] = nb
					if try(&c) {
						return true
					}
				}
			}
		}
		return false
	}
	if s.Src.shrinks(func(fs *FileSrc) bool {
		c := *s
		c.Src = fs
		c.OnlyCut = -1
		return try(&c)
	}) {
		return true
	}
	if s.OnlyCut < 0 {
		n := len(s.Src.produce().data)
		for k := 0; k < n; k++ {
			c := *s
			c.OnlyCut = k
			if try(&c) {
				return true
			}
		}
	}
	return false
}

const allocBase = 8 << 20

func allocBound(n int) uint64 { return allocBase + 256*uint64(n) }

// checkAny evaluates the clauses that hold for every byte string.
func checkAny(data []byte, o readOutcome, what string) []core.Violation {
	switch {
	case o.call.panicked:
		return []core.Violation{core.V("panic", panicKey(o.call.panicMsg), "%s: ReadFrom panicked: %s; input(%d)=%s", what, o.call.panicMsg, len(data), core.Trunc(core.HexStr(data), 300))}
	case o.call.timeout && o.call.alloc > allocBound(len(data)):
		return []core.Violation{core.V("allocation", "alloc", "%s: ReadFrom requested %d bytes from the allocator for an input of %d bytes (bound %d) and had not returned after %v; input=%s", what, o.call.alloc, len(data), allocBound(len(data)), libBudget, core.Trunc(core.HexStr(data), 300))}
	case o.call.timeout || o.steps:
		return []core.Violation{core.V("non-termination", "timeout", "%s: ReadFrom did not terminate within its step/time budget; input(%d)=%s", what, len(data), core.Trunc(core.HexStr(data), 300))}
	}
	var vs []core.Violation
	if o.call.alloc > allocBound(len(data)) {
		vs = append(vs, core.V("allocation", "alloc", "%s: ReadFrom allocated %d bytes for an input of %d bytes (bound %d); input=%s", what, o.call.alloc, len(data), allocBound(len(data)), core.Trunc(core.HexStr(data), 300)))
	}
	// "either an error or a file value": neither is a violation. A value handed back next to
	// a non-nil error is an error result (Go readers commonly return what they had) and is
	// not looked at.
	if o.err == nil && o.s == nil {
		vs = append(vs, core.V("value-xor-error", "neither", "%s: ReadFrom returned neither a value nor an error", what))
	}
	return vs
}

func (s *Crash) Run(env *core.Env, st *core.Stats) (vs []core.Violation) {
	if s.Mode == "manytracks" {
		data := manyTracksBytes(s.Declared, s.Have)
		o := readBytes(data, true)
		st.Eval(1)
		if st != nil {
			st.Fault("many-track-chunks")
			st.ReachKey("manytracks-outcome-" + o.kind())
			st.Distinct(core.NewHash().Int(s.Declared).Int(s.Have))
		}
		what := fmt.Sprintf("header declaring %d tracks followed by %d minimal track chunks (%d bytes)", s.Declared, s.Have, len(data))
		if v := checkAny(data[:0], o, what); len(v) > 0 && (o.call.panicked || o.call.timeout) {
			return v
		}
		if o.call.alloc > allocBound(len(data)) {
			return []core.Violation{core.V("allocation", "alloc", "%s: ReadFrom allocated %d bytes (bound %d)", what, o.call.alloc, allocBound(len(data)))}
		}
		// all declared tracks are there: the value has them; surplus track chunks may be
		// ignored or read, but no track that is not in the input may appear
		if o.err == nil && s.Have >= s.Declared && s.Declared > 0 && o.s != nil && (len(o.s.Tracks) < s.Declared || len(o.s.Tracks) > s.Have) {
			return []core.Violation{core.V("fabrication", "track-count", "%s: ReadFrom returned %d tracks", what, len(o.s.Tracks))}
		}
		return nil
	}
	if s.Mode == "raw" {
		o := readBytes(s.Raw, true)
		st.Eval(1)
		if st != nil {
			st.Fault("corruption:" + firstWord(s.How))
			st.ReachKey("raw-outcome-" + o.kind())
			st.Distinct(core.NewHash().Bytes(s.Raw))
			st.Sample(map[string]any{"mode": "raw", "how": s.How, "input_hex": core.Trunc(core.HexStr(s.Raw), 300), "outcome": describeOutcome(o)})
		}
		if v := checkAny(s.Raw, o, "corrupted input from a seekable source ("+s.How+")"); len(v) > 0 {
			return v
		}
		// the same bytes from a source without a Seek method (readBytes uses bytes.Reader, which has one)
		o2 := readUnseekable(s.Raw, true)
		st.Eval(1)
		if v := checkAny(s.Raw, o2, "corrupted input from a plain (non-seekable) reader ("+s.How+")"); len(v) > 0 {
			return v
		}
		// ... and with the Log read option set
		var o3 readOutcome
		o3.call = guarded(libBudget, true, func() {
			o3.s, o3.err = smf.ReadFrom(bytes.NewReader(s.Raw), smf.Log(discardLogger{}))
		})
		st.Eval(1)
		if v := checkAny(s.Raw, o3, "corrupted input read with the Log option ("+s.How+")"); len(v) > 0 {
			return v
		}
		// ... and through the track-iteration entry points (reader based and file-name based)
		return tracksReaderNoPanic(env, s.Raw, "corrupted input ("+s.How+")")
	}
	sf := s.Src.produce()
	if sf.bad != "" {
		st.Probe("source-unusable")
		return nil
	}
	if st != nil {
		st.Sample(map[string]any{"mode": "truncate", "file_hex": core.Trunc(core.HexStr(sf.data), 300), "size": len(sf.data), "crash_points": "every byte offset"})
	}
	want := sf.expected
	if s.OnlyCut < 0 {
		if v := tracksReaderNoPanic(env, sf.data, "complete valid file"); len(v) > 0 {
			return v
		}
	}
	cut := func(k int) bool {
		data := sf.data[:k]
		o := readBytes(data, true)
		st.Eval(1)
		st.Fault("crash-at-offset")
		region := "?"
		if k < len(sf.regions) {
			region = sf.regions[k]
		}
		st.Region(region)
		st.Distinct(core.NewHash().Bytes(sf.data).Int(k))
		st.ReachKey("prefix-outcome-" + o.kind())
		if v := checkAny(data, o, fmt.Sprintf("file truncated to %d of %d bytes (cut in %s)", k, len(sf.data), region)); len(v) > 0 {
			vs = append(vs, v...)
			return false
		}
		if o.err != nil {
			return true
		}
		got, bad := libToRef(o.s)
		detail := ""
		key := ""
		switch {
		case bad != "":
			detail, key = bad, "malformed-event"
		case got.Format != want.Format || got.Division != want.Division:
			detail, key = fmt.Sprintf("header fields differ: format %d/%d division %04X/%04X", got.Format, want.Format, got.Division, want.Division), "header"
		case len(got.Tracks) > len(want.Tracks):
			detail, key = fmt.Sprintf("%d tracks, original has %d", len(got.Tracks), len(want.Tracks)), "extra-track"
		default:
			for i, t := range got.Tracks {
				if len(t) > len(want.Tracks[i]) {
					detail, key = fmt.Sprintf("track %d has %d events, original %d", i, len(t), len(want.Tracks[i])), "extra-event"
					break
				}
				for j, e := range t {
					if !ref.EqualEvent(e, want.Tracks[i][j]) {
						detail, key = fmt.Sprintf("track %d event %d is %v, original %v", i, j, e, want.Tracks[i][j]), "altered-event"
						break
					}
				}
				if detail != "" {
					break
				}
			}
		}
		if detail != "" {
			vs = append(vs, core.V("fabrication", key+"@"+keyRegionFine(region),
				"file truncated to %d of %d bytes (cut in %s) is accepted with content that is not a prefix of the original: %s; prefix=%s",
				k, len(sf.data), region, detail, core.Trunc(core.HexStr(data), 300)))
			return false
		}
		return true
	}
	if s.OnlyCut >= 0 {
		if s.OnlyCut < len(sf.data) {
			cut(s.OnlyCut)
		}
		return vs
	}
	for k := 0; k < len(sf.data); k++ {
		if k%64 == 63 && core.CapReached() {
			st.Probe("enumeration-cut-short-by-the-wall-clock-cap")
			return vs
		}
		if !cut(k) {
			return vs
		}
	}
	return vs
}

func firstWord(s string) string {
	for i, c := range s {
		if c == '@' || c == ' ' {
			return s[:i]
		}
	}
	if s == "" {
		return "none"
	}
	return s
}

// keyRegionFine keeps the region name but drops first/later distinctions.
func keyRegionFine(r string) string {
	switch r {
	case "meta-payload", "sysex-payload", "chan-data", "alien-body":
		return r
	}
	return keyRegion(r)
}

// regionPositions returns the byte positions whose region is one of the names.
func regionPositions(regions []string, n int, names ...string) []int {
	var out []int
	for i, rg := range regions {
		if i >= n {
			break
		}
		for _, nm := range names {
			if rg == nm {
				out = append(out, i)
			}
		}
	}
	return out
}

// regionStarts returns the first position of every run of one of the named regions.
func regionStarts(regions []string, n int, names ...string) []int {
	var out []int
	for _, p := range regionPositions(regions, n, names...) {
		if p == 0 || regions[p-1] != regions[p] {
			out = append(out, p)
		}
	}
	return out
}

// tracksReaderNoPanic drives the TracksReader entry points (ReadTracksFrom / ReadTracks +
// Do) over arbitrary bytes: whatever they contain, no panic.
func tracksReaderNoPanic(env *core.Env, data []byte, what string) []core.Violation {
	n := 0
	g := guarded(libBudget, false, func() {
		tr := smf.ReadTracksFrom(bytes.NewReader(data))
		tr.Do(func(smf.TrackEvent) { n++ })
		_ = tr.Error()
	})
	if g.panicked || g.timeout {
		return []core.Violation{core.V("panic", "tracksreader:"+panicKey(g.panicMsg), "%s: ReadTracksFrom(...).Do panicked/hung: %s; input(%d)=%s", what, g.panicMsg, len(data), core.Trunc(core.HexStr(data), 300))}
	}
	if env != nil && env.T != nil && len(data)%4 == 0 {
		path := tempDir(env) + "/tracks.mid"
		if err := os.WriteFile(path, data, 0o644); err != nil {
			panic(err)
		}
		g = guarded(libBudget, false, func() {
			tr := smf.ReadTracks(path)
			tr.Do(func(smf.TrackEvent) { n++ })
			_ = tr.Error()
		})
		os.Remove(path)
		if g.panicked || g.timeout {
			return []core.Violation{core.V("panic", "tracksreader-file:"+panicKey(g.panicMsg), "%s: ReadTracks(file).Do panicked/hung: %s; input(%d)=%s", what, g.panicMsg, len(data), core.Trunc(core.HexStr(data), 300))}
		}
	}
	return nil
}
