package worlds

import (
	"bytes"
	"encoding/json"
	"fmt"
	"math/big"
	"os"
	"testing"
	"time"

	"gitlab.com/gomidi/midi/v2/drivers/testdrv"
	"gitlab.com/gomidi/midi/v2/smf"

	"verif/sim/core"
	"verif/sim/ref"
	"verif/sim/simio"
)

// RecSc is a recworld scenario (C13): a live stream with inter-arrival times on the
// driver's virtual clock is recorded into a track.
type RecSc struct {
	Via    string   `json:"via"` // "track": Track.RecordFrom; "smf": SMF.RecordFrom; "file": smf.RecordTo (resolution is the default 960)
	BPMx10 int      `json:"bpm_x10"`
	Res    uint16   `json:"resolution"`
	Stream core.Hex `json:"stream"`
	Chunks []int    `json:"chunks"`
	Deltas []int32  `json:"deltas_ms"`
	// AddDuring >= 0 (via "smf" only): before that chunk is sent, another (closed) track is
	// added to the SMF that is being recorded into.
	AddDuring int `json:"add_during"`
	// Prior (via "track" only): the track already holds this many text events (a name, an
	// instrument, an earlier take) when the recording starts.
	Prior int `json:"prior,omitempty"`
}

type recWorld struct{}

func (recWorld) Decode(raw json.RawMessage) (core.Scenario, error) {
	var s RecSc
	if err := json.Unmarshal(raw, &s); err != nil {
		return nil, err
	}
	n := 0
	for _, c := range s.Chunks {
		n += c
	}
	if n != len(s.Stream) || len(s.Deltas) != len(s.Chunks) || s.Res == 0 || s.BPMx10 == 0 {
		return nil, fmt.Errorf("inconsistent scenario")
	}
	return &s, nil
}

func (recWorld) Gen(seed uint64, tier string) core.Scenario {
	r := core.NewRand(seed)
	s := &RecSc{Via: "track"}
	if r.Chance(1, 3) {
		s.Via = "smf"
	}
	if r.Chance(1, 10) {
		s.Via = "file"
	}
	s.BPMx10 = r.PickInt(200, 600, 1200, 1205, 1333, 2400, 4000, r.Range(200, 4000))
	s.Res = uint16(r.PickInt(24, 96, 480, 960, 15360, r.Range(24, 15360)))
	if s.Via == "file" {
		s.Res = 960 // RecordTo records into smf.New(), whose resolution is the default
	}
	all := LiveOpts{ActiveSense: true, TimeCode: true, SysEx: true, BufSize: 0}
	n := r.PickInt(1, 2, 4, 8, 20, 50)
	if tier == "thorough" && r.Chance(1, 5) {
		n = 200
	}
	stream, _ := genWellFormed(r, all, n, true)
	// stray data bytes and undefined bytes at seeded positions
	if r.Chance(1, 3) {
		for i := r.Range(1, 4); i > 0; i-- {
			pos := r.Intn(len(stream) + 1)
			var ins []byte
			switch r.Intn(3) {
			case 0:
				ins = r.Data7(r.Range(1, 3))
			case 1:
				ins = []byte{0xF7}
			default:
				ins = []byte{byte(r.PickInt(0xF4, 0xF5, 0xF9, 0xFD))}
			}
			stream = append(stream[:pos], append(ins, stream[pos:]...)...)
		}
	}
	s.Stream = stream
	s.Chunks = r.Partition(len(stream), r.Weighted(1, 2, 3, 4))
	// the largest gap whose tick count still fits the format's maximum delta
	maxGap := float64(s.maxGapMs())
	budget := maxGap
	if s.Via == "track" && r.Chance(1, 5) {
		s.Prior = r.Range(1, 3)
	}
	s.AddDuring = -1
	if s.Via == "smf" && r.Chance(1, 4) {
		s.AddDuring = r.Intn(len(s.Chunks) + 1)
	}
	s.Deltas = make([]int32, len(s.Chunks))
	for i := range s.Deltas {
		var d int32
		switch r.Weighted(30, 15, 30, 15, 10) {
		case 0:
			d = 0
		case 1:
			d = 1
		case 2:
			d = int32(r.Range(2, 500))
		case 3:
			d = int32(r.PickInt(999, 1000, 1001, 2500, 60000))
		default:
			d = int32(r.PickInt(120000, 599999, 600000, 1<<24, 1<<24+1, 1<<25, 1<<29))
		}
		if float64(d) > budget {
			d = int32(budget)
		}
		budget -= float64(d) // the whole session stays within one maximal delta
		s.Deltas[i] = d
	}
	return s
}

func (s *RecSc) Size() int { return len(s.Stream) + len(s.Chunks) }

func (s *RecSc) asLive() *Live {
	return &Live{Prop: "C13", Level: "listen", Stream: s.Stream, Chunks: s.Chunks, Deltas: s.Deltas}
}

// maxGapMs is the largest inter-arrival gap whose tick count fits the format's maximum delta.
func (s *RecSc) maxGapMs() int64 {
	m := new(big.Rat).SetFrac(big.NewInt(0x0FFFFFFF*60000*10), big.NewInt(int64(s.Res)*int64(s.BPMx10)))
	f, _ := m.Float64()
	if f > 1<<30 {
		f = 1 << 30 // time stamps are int32 milliseconds
	}
	return int64(f)
}

func (s *RecSc) inDomain() bool {
	mx := s.maxGapMs()
	var sum int64
	for _, d := range s.Deltas {
		sum += int64(d)
	}
	return sum <= mx
}

func (s *RecSc) Shrinks(try0 func(core.Scenario) bool) bool {
	try := func(c core.Scenario) bool {
		if !c.(*RecSc).inDomain() {
			return false
		}
		return try0(c)
	}
	l := s.asLive()
	mk := func(x *Live) *RecSc {
		c := *s
		c.Stream, c.Chunks, c.Deltas = x.Stream, x.Chunks, x.Deltas
		return &c
	}
	n := len(s.Stream)
	for size := n; size >= 1; size /= 2 {
		for a := 0; a+size <= n; a += size {
			if core.ShrinkOver() {
				return false
			}
			if x := l.removeRange(a, a+size); x != nil && len(x.Stream) > 0 {
				if try(mk(x)) {
					return true
				}
			}
		}
		if size == 1 {
			break
		}
	}
	for i := 0; i+1 < len(s.Chunks); i++ {
		c := *s
		c.Chunks = append(append([]int{}, s.Chunks[:i]...), s.Chunks[i]+s.Chunks[i+1])
		c.Chunks = append(c.Chunks, s.Chunks[i+2:]...)
		c.Deltas = append(append([]int32{}, s.Deltas[:i]...), s.Deltas[i]+s.Deltas[i+1])
		c.Deltas = append(c.Deltas, s.Deltas[i+2:]...)
		if try(&c) {
			return true
		}
	}
	for i, d := range s.Deltas {
		if d != 0 {
			c := *s
			c.Deltas = append([]int32{}, s.Deltas...)
			c.Deltas[i] = 0
			if try(&c) {
				return true
			}
		}
	}
	if s.Prior > 0 {
		c := *s
		c.Prior = 0
		if try(&c) {
			return true
		}
	}
	if s.AddDuring >= 0 {
		c := *s
		c.AddDuring = -1
		if try(&c) {
			return true
		}
	}
	if s.Via != "track" {
		c := *s
		c.Via = "track"
		c.AddDuring = -1
		if try(&c) {
			return true
		}
	}
	return false
}

func (s *RecSc) Run(env *core.Env, st *core.Stats) (vs []core.Violation) {
	st.Eval(1)
	bpm := float64(s.BPMx10) / 10
	// what arrives, by the receiver model (no listen options are set by RecordFrom)
	l := s.asLive()
	arrivals := filterOpts(l.model(LiveOpts{}, nil), LiveOpts{})
	var chanArr []ref.RxMsg
	for _, m := range arrivals {
		if m.Bytes[0] >= 0x80 && m.Bytes[0] <= 0xEF {
			chanArr = append(chanArr, m)
		}
	}
	if st != nil {
		h := core.NewHash().Bytes(s.Stream).Int(s.BPMx10).Int(int(s.Res)).Str(s.Via)
		for i := range s.Chunks {
			h = h.Int(s.Chunks[i]).Int(int(s.Deltas[i]))
		}
		if len(chanArr) > 0 {
			st.Distinct(h)
		}
		for _, m := range arrivals {
			switch b := m.Bytes[0]; {
			case b >= 0xF8:
				st.Probe("real-time-arrives-while-recording")
			case b >= 0xF1 && b <= 0xF6:
				st.Probe("system-common-arrives-while-recording")
			}
		}
		for _, b := range s.Stream {
			if b == 0xF0 {
				st.Probe("sysex-on-the-wire-while-recording")
				break
			}
		}
		for _, d := range s.Deltas {
			if d == 0 {
				st.ReachKey("gap-0")
			} else if d >= 60000 {
				st.ReachKey("gap>=1min")
			} else {
				st.ReachKey("gap-small")
			}
		}
		st.ReachKey("via-" + s.Via)
		if s.AddDuring >= 0 && s.Via == "smf" {
			st.Probe("track-added-to-the-SMF-while-recording")
		}
		var tot int64
		for _, d := range s.Deltas {
			tot += int64(d)
		}
		st.ProbeIf(tot > 1<<24, "session-longer-than-2^24-ms")
		st.FaultN("wire-chunk-boundary", int64(len(s.Chunks)-1))
		var total int64
		for _, d := range s.Deltas {
			total += int64(d)
		}
		st.SimTime(time.Duration(total) * time.Millisecond)
		st.Sample(s)
	}

	var track smf.Track
	var file *smf.SMF
	var pan string
	var recErr error
	body := func(t *testing.T) {
		defer func() {
			if p := recover(); p != nil {
				pan = fmt.Sprint(p)
			}
		}()
		drv := testdrv.New("rec")
		ins, _ := drv.Ins()
		outs, _ := drv.Outs()
		in, out := ins[0], outs[0]
		if err := out.Open(); err != nil {
			panic(err)
		}
		var stop func()
		var stopFile func() error
		path := ""
		file = smf.New()
		file.TimeFormat = smf.MetricTicks(s.Res)
		if s.Via == "file" {
			path = tempDir(env) + "/rec.mid"
			stopFile, recErr = smf.RecordTo(in, bpm, path)
			stop = func() {
				if err := stopFile(); err != nil {
					panic(fmt.Sprintf("RecordTo stop: %v", err))
				}
			}
		} else if s.Via == "smf" {
			stop, recErr = file.RecordFrom(in, bpm)
		} else {
			for i := 0; i < s.Prior; i++ {
				track.Add(uint32(i), smf.MetaText(fmt.Sprintf("already here %d", i)))
			}
			stop, recErr = track.RecordFrom(in, smf.MetricTicks(s.Res), bpm)
		}
		if recErr != nil {
			return
		}
		pos := 0
		for i, n := range s.Chunks {
			if s.AddDuring == i && s.Via == "smf" {
				var extra smf.Track
				extra.Add(0, smf.MetaText("added while recording"))
				extra.Close(0)
				file.Add(extra)
			}
			drv.Sleep(time.Duration(s.Deltas[i]) * time.Millisecond)
			if err := out.Send(s.Stream[pos : pos+n]); err != nil {
				panic(fmt.Sprintf("Send: %v", err))
			}
			pos += n
		}
		stop()
		// what arrives after the stop function has returned is not part of the recording
		out.Send([]byte{0x9F, 0x7F, 0x7F})
		if s.Via == "file" {
			f, err := smf.ReadFile(path)
			os.Remove(path)
			if err != nil {
				panic(fmt.Sprintf("the file written by RecordTo cannot be read: %v", err))
			}
			if len(f.Tracks) != 1 {
				panic(fmt.Sprintf("RecordTo wrote %d tracks", len(f.Tracks)))
			}
			file = f
			track = f.Tracks[0]
		} else if s.Via == "smf" {
			// the recorded track is the one that is not the track added meanwhile
			var rec []smf.Track
			for _, t := range file.Tracks {
				if len(t) > 0 && t[0].Message.Is(smf.MetaTextMsg) {
					continue
				}
				rec = append(rec, t)
			}
			if len(rec) != 1 {
				panic(fmt.Sprintf("SMF.RecordFrom left %d recorded tracks (%d tracks in the file)", len(rec), len(file.Tracks)))
			}
			track = rec[0]
			only := smf.New()
			only.TimeFormat = file.TimeFormat
			only.Add(track)
			file = only
		} else {
			track.Close(0)
			file.Add(track)
		}
	}
	if env != nil && env.T != nil {
		runBubble(env, body)
	} else {
		body(nil)
	}
	desc := func() string {
		return fmt.Sprintf("via=%s bpm=%.1f res=%d stream=%s chunks=%s deltas_ms=%s", s.Via, bpm, s.Res, core.Trunc(core.HexStr(s.Stream), 200), core.Trunc(fmt.Sprint(s.Chunks), 60), core.Trunc(fmt.Sprint(s.Deltas), 80))
	}
	if pan != "" {
		return []core.Violation{core.V("panic", panicKey(pan), "recording panicked: %s; %s", pan, desc())}
	}
	if recErr != nil {
		return []core.Violation{core.V("record-error", "err", "RecordFrom failed: %v; %s", recErr, desc())}
	}

	fullTrack := track
	// 1. first event (after what the track held before) is the tempo meta
	if s.Via == "track" && s.Prior > 0 {
		st.Probe("recording-into-a-track-that-already-has-events")
		if len(track) < s.Prior {
			return []core.Violation{core.V("channel-messages", "prior-lost", "the %d events the track held before the recording are gone; %s", s.Prior, desc())}
		}
		var shift int64
		for _, e := range track[:s.Prior] {
			shift += int64(e.Delta)
		}
		_ = shift
		track = track[s.Prior:]
	}
	if len(track) == 0 || len(track[0].Message) != 6 || track[0].Message[0] != 0xFF || track[0].Message[1] != 0x51 || track[0].Message[2] != 3 {
		return []core.Violation{core.V("tempo-first", "missing", "recorded track does not start with a tempo event (first: %v); %s", firstEv(track), desc())}
	}
	us := int64(track[0].Message[3])<<16 | int64(track[0].Message[4])<<8 | int64(track[0].Message[5])
	wantUs := new(big.Rat).SetFrac64(600000000, int64(s.BPMx10))
	if d := new(big.Rat).Sub(big.NewRat(us, 1), wantUs); d.Abs(d).Cmp(big.NewRat(1, 1)) > 0 {
		return []core.Violation{core.V("tempo-first", "value", "initial tempo event carries %d us per quarter, recording tempo %.1f BPM is %s us; %s", us, bpm, wantUs.FloatString(2), desc())}
	}
	// 2. the channel messages stored are the channel messages that arrived
	type stored struct {
		msg []byte
		pos int64
	}
	var got []stored
	var abs int64
	for i, e := range track {
		abs += int64(e.Delta)
		if i == 0 {
			continue
		}
		if len(e.Message) > 0 && e.Message[0] >= 0x80 && e.Message[0] <= 0xEF {
			got = append(got, stored{msg: e.Message, pos: abs})
		}
	}
	for i := 0; i < len(got) && i < len(chanArr); i++ {
		if !bytes.Equal(got[i].msg, chanArr[i].Bytes) {
			return []core.Violation{core.V("channel-messages", "content", "recorded channel message %d is % X, arrived was % X; %s", i, got[i].msg, chanArr[i].Bytes, desc())}
		}
	}
	if len(got) != len(chanArr) {
		key := "missing"
		if len(got) > len(chanArr) {
			key = "extra"
		}
		return []core.Violation{core.V("channel-messages", key, "%d channel messages arrived, %d are recorded; %s", len(chanArr), len(got), desc())}
	}
	// 3. delta ticks follow the arrival time stamps (to within one tick)
	one := big.NewRat(1, 1)
	var prevPos int64
	var prevT int32
	for i := range got {
		dms := int64(chanArr[i].T - prevT)
		exact := new(big.Rat).SetFrac(big.NewInt(dms*int64(s.Res)*int64(s.BPMx10)), big.NewInt(600000))
		have := big.NewRat(got[i].pos-prevPos, 1)
		if d := new(big.Rat).Sub(have, exact); d.Abs(d).Cmp(one) > 0 {
			return []core.Violation{core.V("timing", "ticks", "channel message %d (% X) arrived %d ms after the previous one = %s ticks at %.1f BPM / %d ppq, but lies %d ticks after it in the track; %s", i, got[i].msg, dms, exact.FloatString(2), bpm, s.Res, got[i].pos-prevPos, desc())}
		}
		if !exact.IsInt() {
			f := new(big.Rat).Sub(exact, new(big.Rat).SetInt(new(big.Int).Quo(exact.Num(), exact.Denom())))
			if f.Cmp(big.NewRat(1, 2)) == 0 {
				st.Probe("tick-conversion-at-.5")
			}
		}
		prevPos, prevT = got[i].pos, chanArr[i].T
	}
	// 4. once closed and written, the file is valid and reads back to the same events
	if !fullTrack.IsClosed() {
		return []core.Violation{core.V("file-valid", "not-closed", "recorded track is not closed after stop; %s", desc())}
	}
	d := &simio.Disk{Limit: -1}
	wo := writeTo(file, d)
	if wo.call.panicked || wo.err != nil {
		return []core.Violation{core.V("file-valid", "write-failed", "writing the recorded file failed: %v %s; %s", wo.err, wo.call.panicMsg, desc())}
	}
	parsed, err := ref.Decode(d.Stored, ref.DecodeOpts{Strict: true})
	if err != nil {
		return []core.Violation{core.V("file-valid", "strict-parse:"+structKey(err.Error(), 40), "the written recording is not a valid SMF: %v; file=%s; %s", err, core.Trunc(core.HexStr(d.Stored), 200), desc())}
	}
	ro := readBytes(d.Stored, false)
	if ro.kind() != "ok" {
		return []core.Violation{core.V("file-valid", "read-back:"+ro.kind(), "the library cannot read the recording back: %s; file=%s; %s", describeOutcome(ro), core.Trunc(core.HexStr(d.Stored), 200), desc())}
	}
	back, bad := libToRef(ro.s)
	if bad != "" {
		return []core.Violation{core.V("file-valid", "read-back:malformed", "read-back: %s; %s", bad, desc())}
	}
	if len(back.Tracks) != 1 || len(parsed.Tracks) != 1 {
		return []core.Violation{core.V("file-valid", "tracks", "recording has %d tracks after read-back; %s", len(back.Tracks), desc())}
	}
	if len(back.Tracks[0]) != len(fullTrack) {
		return []core.Violation{core.V("file-valid", "read-back:events", "read-back has %d events, recorded track %d; %s", len(back.Tracks[0]), len(fullTrack), desc())}
	}
	for i, e := range fullTrack {
		b := back.Tracks[0][i]
		if b.Delta != e.Delta || !bytes.Equal(b.LibBytes(), e.Message) {
			return []core.Violation{core.V("file-valid", "read-back:events", "read-back event %d is %v, recorded (d=%d % X); %s", i, b, e.Delta, []byte(e.Message), desc())}
		}
	}
	return nil
}

func firstEv(t smf.Track) string {
	if len(t) == 0 {
		return "empty track"
	}
	return fmt.Sprintf("% X", []byte(t[0].Message))
}
