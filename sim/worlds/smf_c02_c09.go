package worlds

import (
	"bytes"
	"encoding/json"
	"errors"
	"fmt"
	"io"
	"os"

	"gitlab.com/gomidi/midi/v2/smf"

	"verif/sim/core"
	"verif/sim/ref"
	"verif/sim/simio"
)

// ---------------------------------------------------------------------------
// C02: a foreign writer node produces spec-valid files the library never emits.

type ForeignRead struct {
	File *ref.FFile `json:"file"`
}

type foreignWorld struct{}

func (foreignWorld) Gen(seed uint64, tier string) core.Scenario {
	return &ForeignRead{File: genForeign(core.NewRand(seed), tier, true)}
}
func (foreignWorld) Decode(raw json.RawMessage) (core.Scenario, error) {
	var s ForeignRead
	if err := json.Unmarshal(raw, &s); err != nil {
		return nil, err
	}
	if s.File == nil {
		return nil, fmt.Errorf("no file")
	}
	return &s, nil
}
func (s *ForeignRead) Size() int { return (&FileSrc{Foreign: s.File}).size() }
func (s *ForeignRead) Shrinks(try func(core.Scenario) bool) bool {
	return shrinkForeign(s.File, func(f *ref.FFile) bool { return try(&ForeignRead{File: f}) })
}

func (s *ForeignRead) Run(env *core.Env, st *core.Stats) (vs []core.Violation) {
	data, _ := s.File.Encode()
	want := s.File.Expected()
	st.Eval(1)
	// self-check of the reference side: independent decoder agrees with the description
	if dec, err := ref.Decode(data, ref.DecodeOpts{}); err != nil {
		return append(vs, core.V("harness-panic", "refsmf", "reference decoder rejects generated file: %v", err))
	} else if d := ref.EqualFiles(dec, want); d != "" {
		return append(vs, core.V("harness-panic", "refsmf", "reference decoder disagrees with encoder description: %s", d))
	}
	if st != nil {
		h, nt := foreignReach(s.File, st)
		if nt {
			st.Distinct(h)
		}
		if len(data) < 4096 {
			st.Sample(s)
		}
	}
	ro := readBytes(data, false)
	// sources differ in what else they implement: a plain reader, a seekable one (file,
	// bytes.Reader), and one that has a Seek method that fails at run time (a pipe opened
	// as *os.File). The decoding must not depend on it.
	// ... and a seekable source that is not at its start when it is handed over (an SMF
	// embedded in a container, after a consumed preamble)
	pre := bytes.NewReader(append([]byte("RIFF\x00\x00\x00\x00RMIDdata\x00\x00\x00\x00"), data...))
	pre.Seek(20, io.SeekStart)
	for i, alt := range []readOutcome{readPlain(data), readFrom(&pipeLike{r: bytes.NewReader(data)}, len(data), false), readFrom(pre, len(data), false)} {
		if outcomeSig(alt) != outcomeSig(ro) {
			kind := []string{"plain-reader", "seek-fails", "seekable-at-offset"}[i]
			vs = append(vs, core.V("decode", "source-kind:"+kind, "decoding depends on the kind of source: bytes.Reader gives %s, %s source gives %s; file %s", describeOutcome(ro), kind, describeOutcome(alt), core.Trunc(core.HexStr(data), 300)))
			return vs
		}
	}
	switch ro.kind() {
	case "panic", "timeout":
		vs = append(vs, core.V("panic", panicKey(ro.call.panicMsg), "ReadFrom: %s (%s) file=%s", ro.call.panicMsg, ro.kind(), core.Trunc(core.HexStr(data), 300)))
	case "ok":
		got, bad := libToRef(ro.s)
		if bad != "" {
			vs = append(vs, core.V("decode", "malformed-event", "%s", bad))
		} else if d := ref.EqualFiles(got, want); d != "" {
			vs = append(vs, core.V("decode", decodeKey(got, want), "library decoding differs from the reference decoder: %s", d))
		}
	default:
		vs = append(vs, core.V("decode", "rejected", "ReadFrom rejects a spec-valid file: %v (file %s)", ro.err, core.Trunc(core.HexStr(data), 300)))
	}
	return vs
}

func decodeKey(got, want *ref.File) string {
	switch {
	case got.Format != want.Format:
		return "format"
	case got.Division != want.Division:
		return "division"
	case len(got.Tracks) != len(want.Tracks):
		return "track-count"
	}
	return "events"
}

// ---------------------------------------------------------------------------
// C09: the Read schedule of the source is the adversary.

type FragRead struct {
	Src *FileSrc `json:"src,omitempty"`
	// Raw, if set, is used instead of Src: arbitrary (corrupted) bytes; the result must not
	// depend on fragmentation for them either.
	Raw core.Hex `json:"raw,omitempty"`
	// Cut >= 0 truncates the file to that many bytes first (truncated files are in scope).
	Cut int `json:"cut"`
	// Partitions are extra explicit fragment schedules (random ones drawn by the generator).
	Partitions [][]int `json:"partitions,omitempty"`
	// Enumerate: run every single split point and the all-ones schedule too.
	Enumerate bool `json:"enumerate"`
	// Only pins the run to one explicit schedule (set by the shrinker).
	Only    []int `json:"only,omitempty"`
	OnlyEOF bool  `json:"only_eof,omitempty"`
}

type fragWorld struct{}

func (fragWorld) Gen(seed uint64, tier string) core.Scenario {
	r := core.NewRand(seed)
	s := &FragRead{Cut: -1, Enumerate: true}
	if r.Chance(1, 4) {
		// a corrupted file (same corruptions as the crash/corruption configuration)
		for i := uint64(0); ; i++ {
			c := (crashWorld{}).Gen(core.Mix(seed, 77+i), "quick").(*Crash)
			if c.Mode == "raw" && len(c.Raw) > 0 && len(c.Raw) < 1500 {
				s.Raw = c.Raw
				break
			}
		}
	} else {
		s.Src = genFileSrc(r, tier)
	}
	// a payload larger than any block a reader may copy in (4 KiB and above, lengths on both
	// sides of the multiples): such a file is too long to be read once per byte offset, so it
	// gets one-byte reads, scattered single splits and random partitions instead (wave 6)
	bigPayload := false
	if s.Src != nil && s.Src.Foreign != nil && r.Chance(1, 10) {
		for ci := range s.Src.Foreign.Chunks {
			c := &s.Src.Foreign.Chunks[ci]
			if c.AlienType != "" {
				continue
			}
			l := r.PickInt(4097, 4100, 5000, 6144, 8191, 8193, 10000, 12289)
			ev := ref.FEvent{Event: ref.Event{Kind: ref.Meta, Status: 0xFF, MetaType: 0x01, Data: r.Bytes(l)}}
			if r.Bool() {
				ev = ref.FEvent{Event: ref.Event{Kind: ref.Sysex, Status: 0xF0, Data: append(r.Data7(l-1), 0xF7)}}
			}
			c.Events = append([]ref.FEvent{ev}, c.Events...)
			bigPayload = true
			s.Enumerate = false
			break
		}
	}
	n := len(s.bytes().data)
	if n > 0 && r.Chance(1, 3) {
		s.Cut = r.Intn(n)
		n = s.Cut
	}
	if bigPayload && n > 0 {
		ones := make([]int, n)
		for i := range ones {
			ones[i] = 1
		}
		s.Partitions = append(s.Partitions, ones)
		for i := 0; i < 24 && n > 1; i++ {
			s.Partitions = append(s.Partitions, []int{r.Range(1, n-1)})
		}
	}
	for i := 0; i < 6 && n > 0; i++ {
		s.Partitions = append(s.Partitions, r.Partition(n, 2+r.Intn(2)))
	}
	return s
}
func (fragWorld) Decode(raw json.RawMessage) (core.Scenario, error) {
	var s FragRead
	if err := json.Unmarshal(raw, &s); err != nil {
		return nil, err
	}
	if s.Src == nil && len(s.Raw) == 0 {
		return nil, fmt.Errorf("no source")
	}
	return &s, nil
}

// bytes produces the file of the scenario.
func (s *FragRead) bytes() srcFile {
	if len(s.Raw) > 0 {
		rg := make([]string, len(s.Raw))
		for i := range rg {
			rg[i] = "corrupted-file"
		}
		return srcFile{data: s.Raw, regions: rg}
	}
	return s.Src.produce()
}

func (s *FragRead) Size() int {
	if len(s.Raw) > 0 {
		return len(s.Raw) + len(s.Partitions)
	}
	return s.Src.size() + len(s.Partitions)
}
func (s *FragRead) Shrinks(try func(core.Scenario) bool) bool {
	if len(s.Raw) > 0 {
		if core.ShrinkList([]byte(s.Raw), func(b []byte) bool {
			c := *s
			c.Raw = b
			c.Only, c.Enumerate, c.Cut = nil, true, -1
			return len(b) > 0 && try(&c)
		}) {
			return true
		}
	} else if s.Src.shrinks(func(fs *FileSrc) bool {
		c := *s
		c.Src = fs
		if c.Only != nil { // the pinned schedule refers to the old byte layout
			c.Only = nil
			c.Enumerate = true
		}
		return try(&c)
	}) {
		return true
	}
	if s.Only == nil {
		// pin the run to one schedule
		n := len(s.bytes().data)
		if s.Cut >= 0 && s.Cut < n {
			n = s.Cut
		}
		ones := make([]int, n)
		for i := range ones {
			ones[i] = 1
		}
		cands := [][]int{{n}}
		for k := 1; k < n; k++ {
			cands = append(cands, []int{k})
		}
		cands = append(cands, ones)
		cands = append(cands, s.Partitions...)
		for _, p := range cands {
			for _, e := range []bool{false, true} {
				c := *s
				c.Only, c.OnlyEOF, c.Enumerate, c.Partitions = append([]int{}, p...), e, false, nil
				if try(&c) {
					return true
				}
			}
		}
	}
	if s.Only != nil && len(s.Only) > 1 {
		// merge neighbouring fragments
		for i := 0; i+1 < len(s.Only); i++ {
			c := *s
			c.Only = append([]int{}, s.Only[:i]...)
			c.Only = append(c.Only, s.Only[i]+s.Only[i+1])
			c.Only = append(c.Only, s.Only[i+2:]...)
			if try(&c) {
				return true
			}
		}
	}
	return false
}

// outcomeSig renders a read outcome for comparison.
func outcomeSig(o readOutcome) string {
	k := o.kind()
	if k != "ok" {
		return k
	}
	f, bad := libToRef(o.s)
	if bad != "" {
		return "ok:malformed:" + bad
	}
	h := core.NewHash().Int(int(f.Format)).Int(int(f.Division)).Int(len(f.Tracks))
	for _, t := range f.Tracks {
		h = h.Int(len(t))
		for _, e := range t {
			h = h.U64(uint64(e.Delta)).Bytes(e.LibBytes())
		}
	}
	// tempo map is part of the public value too
	if o.s == nil {
		return "ok:nil-value"
	}
	for _, tc := range o.s.TempoChanges() {
		h = h.U64(uint64(tc.AbsTicks)).U64(uint64(tc.AbsTimeMicroSec)).Str(fmt.Sprint(tc.BPM))
	}
	return fmt.Sprintf("ok:%016x", uint64(h))
}

func describeOutcome(o readOutcome) string {
	k := o.kind()
	switch k {
	case "ok":
		f, bad := libToRef(o.s)
		if bad != "" {
			return "ok but " + bad
		}
		n := 0
		for _, t := range f.Tracks {
			n += len(t)
		}
		return fmt.Sprintf("ok (format %d, division %04X, %d tracks, %d events)", f.Format, f.Division, len(f.Tracks), n)
	case "panic":
		return "panic: " + o.call.panicMsg
	case "timeout":
		return "did not terminate"
	}
	return fmt.Sprintf("%s: %v", k, o.err)
}

func (s *FragRead) Run(env *core.Env, st *core.Stats) (vs []core.Violation) {
	sf := s.bytes()
	if sf.bad != "" {
		st.Probe("source-unusable")
		return nil // the writer's defect is C01/C03's business
	}
	st.ProbeIf(len(s.Raw) > 0, "corrupted-file-as-source")
	st.ProbeIf(!s.Enumerate && s.Only == nil && len(s.Partitions) > 6, "payload-above-4096-under-one-byte-reads-and-scattered-splits")
	data := sf.data
	if s.Cut >= 0 && s.Cut < len(data) {
		data = data[:s.Cut]
		st.Probe("truncated-file")
	}
	base := readBytes(data, false)
	baseSig := outcomeSig(base)
	if base.kind() == "panic" || base.kind() == "timeout" {
		st.Probe("baseline-panics")
		return nil // C05's business; nothing to compare against
	}
	if st != nil {
		st.ReachKey("baseline-" + base.kind())
		st.Sample(map[string]any{"file_hex": core.Trunc(core.HexStr(data), 400), "cut": s.Cut, "baseline": describeOutcome(base), "schedules": "every single split, all one-byte reads, random partitions; each with and without data+EOF"})
	}
	try := func(frags []int, eofWith bool, label string) bool {
		fr := &simio.FragReader{Data: data, Frags: append([]int{}, frags...), EOFWith: eofWith}
		o := readFrom(fr, len(data), false)
		st.Eval(1)
		if sig := outcomeSig(o); sig != baseSig {
			key := "value-differs"
			if o.kind() != base.kind() {
				key = base.kind() + "->" + o.kind()
			}
			region := ""
			if len(frags) >= 1 && frags[0] < len(sf.regions) {
				region = sf.regions[frags[0]]
			}
			vs = append(vs, core.V("fragmentation-dependent", key,
				"schedule %s (frags=%v eof_with_data=%v, first cut in %q): in-memory read gives %s, fragmented read gives %s; file=%s",
				label, core.Trunc(fmt.Sprint(frags), 80), eofWith, region, describeOutcome(base), describeOutcome(o), core.Trunc(core.HexStr(data), 300)))
			return false
		}
		return true
	}
	if s.Only != nil {
		try(s.Only, s.OnlyEOF, "pinned")
		return vs
	}
	n := len(data)
	if s.Enumerate {
		for k := 1; k < n; k++ {
			if k%64 == 63 && core.CapReached() {
				st.Probe("enumeration-cut-short-by-the-wall-clock-cap")
				return vs
			}
			if st != nil && k < len(sf.regions) {
				st.Region(sf.regions[k])
				st.Distinct(core.NewHash().Bytes(data).Int(k))
			}
			st.Fault("single-split")
			ok1 := try([]int{k}, false, "single-split")
			st.Fault("single-split+eof-with-data")
			ok2 := try([]int{k}, true, "single-split+eof")
			if !ok1 || !ok2 {
				return vs
			}
		}
		ones := make([]int, n)
		for i := range ones {
			ones[i] = 1
		}
		st.Fault("one-byte-reads")
		if !try(ones, false, "one-byte-reads") {
			return vs
		}
		st.Fault("one-byte-reads+eof-with-data")
		if !try(ones, true, "one-byte-reads+eof") {
			return vs
		}
		st.Fault("whole+eof-with-data")
		if !try([]int{n}, true, "whole+eof") {
			return vs
		}
		// a real operating-system pipe (*os.File that is not a regular file): whatever a
		// library may special-case about files must not change the result
		if pr, pw, err := os.Pipe(); err == nil {
			go func() {
				pw.Write(data)
				pw.Close()
			}()
			// the *os.File itself is handed over (no wrapper), as a program reading stdin would
			var o readOutcome
			o.call = guarded(libBudget, false, func() { o.s, o.err = smf.ReadFrom(pr) })
			pr.Close()
			st.Eval(1)
			st.Fault("os-pipe")
			if sig := outcomeSig(o); sig != baseSig {
				vs = append(vs, core.V("fragmentation-dependent", "os-pipe:"+base.kind()+"->"+o.kind(),
					"the same bytes through an os.Pipe (*os.File): in-memory read gives %s, pipe read gives %s; file=%s", describeOutcome(base), describeOutcome(o), core.Trunc(core.HexStr(data), 300)))
				return vs
			}
		}
	}
	for _, p := range s.Partitions {
		st.Fault("random-partition")
		if !try(p, false, "random") {
			return vs
		}
		st.Fault("random-partition+eof-with-data")
		if !try(p, true, "random+eof") {
			return vs
		}
	}
	return vs
}

var _ = smf.ErrMissing

// pipeLike has a Seek method that always fails, like an *os.File that is a pipe.
type pipeLike struct{ r io.Reader }

func (p *pipeLike) Read(b []byte) (int, error) { return p.r.Read(b) }
func (p *pipeLike) Seek(int64, int) (int64, error) {
	return 0, errors.New("seek: illegal seek")
}

func readPlain(data []byte) readOutcome { return readUnseekable(data, false) }
