package worlds

import (
	"fmt"

	"verif/sim/core"
	"verif/sim/ref"
	"verif/sim/simio"
)

// FileSrc is where a valid file comes from: written by the library from a history, or
// described at byte level by the foreign encoder.
type FileSrc struct {
	Hist    *APIHist   `json:"hist,omitempty"`
	Foreign *ref.FFile `json:"foreign,omitempty"`
	// ZeroLengths (foreign files): the length word of every track chunk is written as zero.
	ZeroLengths bool `json:"zero_lengths,omitempty"`
}

type srcFile struct {
	data     []byte
	regions  []string
	expected *ref.File // spec decoding of the complete file
	bad      string    // source could not be produced (library writer failed, ...)
}

func (fs *FileSrc) produce() srcFile {
	if fs.Foreign != nil {
		b, rg := fs.Foreign.Encode()
		if fs.ZeroLengths {
			b = append([]byte{}, b...)
			for i := 0; i+3 < len(rg); i++ {
				if rg[i] == "chunk-len" {
					b[i] = 0
				}
			}
		}
		return srcFile{data: b, regions: rg, expected: fs.Foreign.Expected()}
	}
	val, m, _ := fs.Hist.Build()
	if len(m.Tracks) == 0 {
		return srcFile{bad: "history without tracks"}
	}
	d := &simio.Disk{Limit: -1}
	o := writeTo(val, d)
	if o.call.panicked || o.call.timeout || o.err != nil {
		return srcFile{bad: fmt.Sprintf("library writer failed: %v %s", o.err, o.call.panicMsg)}
	}
	exp, err := ref.Decode(d.Stored, ref.DecodeOpts{MaxVLQ: 5})
	if err != nil {
		return srcFile{bad: fmt.Sprintf("library wrote an undecodable file: %v", err)}
	}
	return srcFile{data: d.Stored, regions: regionsOfWritten(exp, len(d.Stored)), expected: exp}
}

func (fs *FileSrc) size() int {
	if fs.Foreign != nil {
		n := 0
		for _, c := range fs.Foreign.Chunks {
			n += 1 + len(c.Events)
		}
		return n
	}
	return fs.Hist.size()
}

func (fs *FileSrc) shrinks(try func(*FileSrc) bool) bool {
	if fs.Foreign != nil {
		return shrinkForeign(fs.Foreign, func(f *ref.FFile) bool { return try(&FileSrc{Foreign: f, ZeroLengths: fs.ZeroLengths}) })
	}
	return fs.Hist.shrinks(func(h *APIHist) bool { return try(&FileSrc{Hist: h}) })
}

func genFileSrc(r *core.Rand, tier string) *FileSrc {
	if r.Chance(1, 2) {
		return &FileSrc{Foreign: genForeign(r, tier)}
	}
	return &FileSrc{Hist: genAPIHist(r, tier, false)}
}

// ---------------------------------------------------------------------------
// Foreign-file generator (grammar of DESIGN appendix B).

var alienTypes = []string{"XFIH", "XFKM", "MThx", "mtrk", "RIFF", "\x00\x00\x00\x00", "MTr\x7f", "data"}

// bigAliens is switched on by the C02 world only (the enumerating worlds read every file
// once per byte offset and must keep their files small).
func genAlien(r *core.Rand, big ...bool) ref.FChunk {
	n := r.PickInt(0, 1, 2, 7, 8, 9, 50, 300)
	if len(big) > 0 && big[0] && r.Chance(1, 60) {
		n = r.PickInt(65536, 70000, 66000, 131072+513) // the length needs its third byte
	}
	if len(big) > 1 && big[1] && r.Chance(1, 2500) {
		n = 1<<24 + r.PickInt(0, 1, 300, 70000) // ... and its fourth (thorough tier only)
	}
	return ref.FChunk{AlienType: alienTypes[r.Intn(len(alienTypes))], AlienData: r.Bytes(n)}
}

func genForeign(r *core.Rand, tier string, bigAliens ...bool) *ref.FFile {
	f := &ref.FFile{}
	if r.Chance(1, 4) {
		fps := r.PickInt(24, 25, 29, 30)
		f.Division = uint16(byte(-int8(fps)))<<8 | uint16(r.PickInt(1, 4, 8, 10, 40, 80, 100, 255))
	} else {
		f.Division = uint16(r.PickInt(1, 24, 96, 127, 128, 480, 960, 32767, r.Range(1, 32767)))
	}
	f.Format = uint16(r.Weighted(30, 50, 20))
	nTracks := 1
	if f.Format != 0 {
		nTracks = r.PickInt(1, 2, 2, 3, 5)
	}
	aliens := r.Chance(1, 2)
	big := tier == "thorough" && r.Chance(1, 6)
	maxEv := r.PickInt(0, 1, 3, 8, 20, 40)
	for t := 0; t < nTracks; t++ {
		for aliens && r.Chance(1, 3) {
			f.Chunks = append(f.Chunks, genAlien(r, len(bigAliens) > 0 && bigAliens[0], len(bigAliens) > 0 && bigAliens[0] && tier == "thorough"))
		}
		if len(bigAliens) > 0 && bigAliens[0] && r.Chance(1, 400) {
			// thousands of (empty) unknown chunks in a row
			for i := r.PickInt(4095, 4096, 4097, 5000); i > 0; i-- {
				f.Chunks = append(f.Chunks, ref.FChunk{AlienType: "JUNK"})
			}
		}
		var tr ref.FChunk
		nEv := r.Range(0, maxEv)
		var prev byte
		for e := 0; e < nEv; e++ {
			ev := genEvent(r, prev, big, true)
			ev.Delta = genDelta(r, false)
			fe := ref.FEvent{Event: ev}
			if ev.Kind == ref.Chan {
				prev = ev.Status
				fe.Elide = r.Chance(2, 3)
			} else if r.Chance(1, 2) {
				prev = 0
			}
			if r.Chance(1, 6) {
				fe.DeltaPad = r.Range(1, 3)
			}
			if ev.Kind != ref.Chan && r.Chance(1, 6) {
				fe.LenPad = r.Range(1, 3)
			}
			tr.Events = append(tr.Events, fe)
		}
		eot := ref.FEvent{Event: eotEvent(genDelta(r, false))}
		if r.Chance(1, 8) {
			eot.DeltaPad = r.Range(1, 3)
		}
		if r.Chance(1, 8) {
			eot.LenPad = r.Range(1, 3) // FF 2F 80 00: a non-minimal zero length
		}
		tr.Events = append(tr.Events, eot)
		f.Chunks = append(f.Chunks, tr)
	}
	for aliens && r.Chance(1, 3) {
		f.Chunks = append(f.Chunks, genAlien(r, bigAliens...))
	}
	return f
}

func cloneForeign(f *ref.FFile) *ref.FFile {
	c := *f
	c.Chunks = make([]ref.FChunk, len(f.Chunks))
	for i, ch := range f.Chunks {
		c.Chunks[i] = ch
		c.Chunks[i].Events = append([]ref.FEvent{}, ch.Events...)
	}
	return &c
}

func shrinkForeign(f *ref.FFile, try func(*ref.FFile) bool) bool {
	// drop whole chunks (keeping at least one track; format 0 keeps exactly one)
	for i, ch := range f.Chunks {
		if ch.AlienType == "" && f.NTracks() <= 1 {
			continue
		}
		c := cloneForeign(f)
		c.Chunks = append(c.Chunks[:i], c.Chunks[i+1:]...)
		if try(c) {
			return true
		}
	}
	for i, ch := range f.Chunks {
		if ch.AlienType != "" {
			if len(ch.AlienData) > 0 {
				c := cloneForeign(f)
				c.Chunks[i].AlienData = ch.AlienData[:len(ch.AlienData)/2]
				if try(c) {
					return true
				}
			}
			continue
		}
		// drop events except the final EOT
		if n := len(ch.Events) - 1; n > 0 {
			if core.ShrinkList(ch.Events[:n], func(evs []ref.FEvent) bool {
				c := cloneForeign(f)
				c.Chunks[i].Events = append(append([]ref.FEvent{}, evs...), ch.Events[n])
				return try(c)
			}) {
				return true
			}
		}
		for j, e := range ch.Events {
			type mod func(*ref.FEvent) bool
			mods := []mod{
				func(x *ref.FEvent) bool { ok := x.Delta != 0; x.Delta = 0; return ok },
				func(x *ref.FEvent) bool { ok := x.DeltaPad != 0; x.DeltaPad = 0; return ok },
				func(x *ref.FEvent) bool { ok := x.LenPad != 0; x.LenPad = 0; return ok },
				func(x *ref.FEvent) bool { ok := x.Elide; x.Elide = false; return ok },
				func(x *ref.FEvent) bool {
					if x.Kind == ref.Chan || len(x.Data) < 2 || (x.Kind == ref.Meta && isFixedMeta(x.MetaType)) {
						return false
					}
					x.Data = x.Data[:len(x.Data)/2]
					return true
				},
			}
			for _, md := range mods {
				ne := e
				if md(&ne) {
					c := cloneForeign(f)
					c.Chunks[i].Events[j] = ne
					if try(c) {
						return true
					}
				}
			}
		}
	}
	if f.Division != 96 {
		c := cloneForeign(f)
		c.Division = 96
		if try(c) {
			return true
		}
	}
	return false
}

// foreignReach records which grammar productions a description uses.
func foreignReach(f *ref.FFile, st *core.Stats) (h core.Hash, nontrivial bool) {
	h = core.NewHash().Int(int(f.Format)).Int(int(f.Division))
	seenTrack := false
	for i, ch := range f.Chunks {
		if ch.AlienType != "" {
			pos := "alien-between-tracks"
			if !seenTrack {
				pos = "alien-before-first-track"
			} else if isLastTrackBefore(f, i) {
				pos = "alien-after-last-track"
			}
			st.ReachKey(pos)
			if pos != "alien-after-last-track" {
				// (the library does not read what follows the last declared track)
				if len(ch.AlienData) >= 1<<24 {
					st.ReachKey("alien-length-needs-4-bytes")
				} else if len(ch.AlienData) >= 1<<16 {
					st.ReachKey("alien-length-needs-3-bytes")
				}
			}
			h = h.Str(ch.AlienType).Bytes(ch.AlienData)
			nontrivial = true
			continue
		}
		seenTrack = true
		var running byte
		for _, e := range ch.Events {
			h = h.U64(uint64(e.Delta)).Bytes(e.LibBytes()).Int(e.DeltaPad).Int(e.LenPad)
			if e.DeltaPad > 0 && len(ref.VLQ(e.Delta)) < 4 {
				st.ReachKey("non-minimal-delta")
				nontrivial = true
			}
			if e.LenPad > 0 && e.Kind != ref.Chan {
				st.ReachKey("non-minimal-length")
				nontrivial = true
			}
			switch e.Kind {
			case ref.Chan:
				if e.Elide && running == e.Status {
					h = h.Byte(1)
					nontrivial = true
					if len(e.Data) == 1 {
						st.ReachKey("running-status-1-data-byte")
					} else {
						st.ReachKey("running-status-2-data-bytes")
					}
				}
				running = e.Status
			case ref.Meta:
				running = 0
				if !e.IsEOT() {
					nontrivial = true
				}
				if !isFixedMeta(e.MetaType) && !isTextMeta(e.MetaType) && !e.IsEOT() {
					st.ReachKey("unknown-meta-type")
				}
				if len(e.Data) > 127 {
					st.ReachKey("payload>127")
				}
			case ref.Sysex:
				running = 0
				nontrivial = true
				if len(e.Data) > 127 {
					st.ReachKey("payload>127")
				}
				switch {
				case e.Status == 0xF7:
					st.ReachKey("F7-escape")
				case len(e.Data) > 0 && e.Data[len(e.Data)-1] == 0xF7:
					st.ReachKey("F0-complete")
				default:
					st.ReachKey("F0-without-F7")
				}
			}
		}
	}
	st.ReachKey(fmt.Sprintf("format-%d", f.Format))
	if f.Division&0x8000 != 0 {
		st.ReachKey("division-smpte")
	} else {
		st.ReachKey("division-metric")
	}
	return h, nontrivial
}

func isTextMeta(t byte) bool {
	for _, x := range textMeta {
		if x == t {
			return true
		}
	}
	return false
}

func isLastTrackBefore(f *ref.FFile, i int) bool {
	for j := i + 1; j < len(f.Chunks); j++ {
		if f.Chunks[j].AlienType == "" {
			return false
		}
	}
	return true
}
