package worlds

func selfTestMore() error { return nil }
