package worlds

import (
	"bytes"
	"encoding/json"
	"errors"
	"fmt"
	"math/big"
	"os"
	"testing"
	"time"

	"gitlab.com/gomidi/midi/v2/drivers"
	"gitlab.com/gomidi/midi/v2/smf"

	"verif/sim/core"
	"verif/sim/ref"
)

// PlayEv is one event of a track to be played.
type PlayEv struct {
	Delta uint32   `json:"d"`
	Msg   core.Hex `json:"m"`
}

// PortCfg configures a simulated output port.
type PortCfg struct {
	LatencyUs []int `json:"latency_us,omitempty"` // fake-time sleep inside Send, cycled per call
	ErrEvery  int   `json:"err_every,omitempty"`  // every n-th Send returns an error (0 = never)
}

// PlaySc is a playworld scenario (C12).
type PlaySc struct {
	Res     uint16     `json:"resolution"`
	Tracks  [][]PlayEv `json:"tracks"`
	Select  []int      `json:"select,omitempty"` // ReadTracksFrom selection; empty = all
	Mode    string     `json:"mode"`             // "play" (Play(out)) | "multi" (MultiPlay(map))
	Map     [][2]int   `json:"map,omitempty"`    // (track, port) pairs
	Default int        `json:"default_port"`     // port for key -1; -1 = none
	Ports   []PortCfg  `json:"ports"`
	// Twice plays the same TracksReader a second time: each playback must be complete.
	Twice bool `json:"twice,omitempty"`
	// ViaFile reads the tracks with ReadTracks(path) from a real temporary file instead of
	// ReadTracksFrom(reader).
	ViaFile bool `json:"via_file,omitempty"`
}

type playWorld struct{}

func (playWorld) Decode(raw json.RawMessage) (core.Scenario, error) {
	var s PlaySc
	if err := json.Unmarshal(raw, &s); err != nil {
		return nil, err
	}
	if s.Res == 0 || len(s.Tracks) == 0 || len(s.Ports) == 0 {
		return nil, fmt.Errorf("incomplete scenario")
	}
	return &s, nil
}

func (playWorld) Gen(seed uint64, tier string) core.Scenario {
	r := core.NewRand(seed)
	s := &PlaySc{Res: uint16(r.PickInt(24, 96, 120, 480, 960, 1, 15360, r.Range(1, 2000)))}
	nTracks := r.PickInt(1, 2, 2, 3, 4, 6, 8)
	used := map[string]bool{}
	uniq := func(tr int) []byte {
		for {
			var m []byte
			if r.Chance(1, 6) {
				m = []byte{[]byte{0xC0, 0xD0}[r.Intn(2)] | byte(r.Intn(16)), r.Byte() & 0x7F}
			} else {
				m = []byte{[]byte{0x80, 0x90, 0xA0, 0xB0, 0xE0}[r.Intn(5)] | byte(r.Intn(16)), r.Byte() & 0x7F, r.Byte() & 0x7F}
			}
			if !used[string(m)] {
				used[string(m)] = true
				return m
			}
		}
	}
	// tick pattern: few distinct ticks so that many events share a time
	pattern := r.Intn(4)
	maxEv := r.PickInt(1, 3, 10, 20, 40, 80)
	if tier == "thorough" && r.Chance(1, 6) {
		maxEv = 300
	}
	manyTracks := false
	if r.Chance(1, 300) {
		// more tracks than a byte counts; the map singles out a few of them
		nTracks = r.PickInt(257, 300, 513)
		manyTracks = true
	}
	hugeCount := false
	if r.Chance(1, 2500) {
		hugeCount = true // more playable events than 16 bits count, long same-tick runs
		nTracks = 2
	}
	if r.Chance(1, 400) {
		maxEv = 4500 // thousands of events, many of them on one tick
		if nTracks > 2 {
			nTracks = 2
		}
	}
	if manyTracks {
		maxEv = 2
	}
	for t := 0; t < nTracks; t++ {
		var evs []PlayEv
		n := r.Range(0, maxEv)
		if hugeCount {
			n = 45000
			pattern = 0
		} else if maxEv == 4500 {
			pattern = 0 // few distinct ticks: every distinct time costs a (thread-locked) sleep
		}
		for i := 0; i < n; i++ {
			var d uint32
			switch pattern {
			case 0: // long runs on the same tick
				if r.Chance(1, 10) && (!hugeCount || r.Chance(1, 200)) && (maxEv != 4500 || r.Chance(1, 20)) {
					d = uint32(r.Range(1, 200))
				}
			case 1: // grid: deltas are multiples of a small unit (cross-track ties)
				d = uint32(r.Intn(3)) * 10
			case 2:
				d = uint32(r.Intn(50))
			default:
				if r.Chance(1, 2) {
					d = uint32(r.Intn(3))
				}
			}
			switch r.Weighted(80, 12, 4, 4) {
			case 0:
				evs = append(evs, PlayEv{Delta: d, Msg: uniq(t)})
			case 1: // meta events sprinkled everywhere (never played)
				var ev ref.Event
				for {
					ev = genEvent(r, 0, false, false)
					if ev.Kind == ref.Meta && ev.MetaType != 0x51 {
						break
					}
				}
				evs = append(evs, PlayEv{Delta: d, Msg: ev.LibBytes()})
			case 2: // tempo events, track 0 only
				if t == 0 {
					pickUs := func() int {
						return r.PickInt(500000, 250000, 1000000, 100000, 2000000, 333333, 1, 16777215, r.Range(50000, 3000000))
					}
					us := pickUs()
					evs = append(evs, PlayEv{Delta: d, Msg: core.Hex{0xFF, 0x51, 0x03, byte(us >> 16), byte(us >> 8), byte(us)}})
					// sometimes a second tempo event on the same tick: the later one in the file counts
					for r.Chance(1, 3) {
						us = pickUs()
						evs = append(evs, PlayEv{Delta: 0, Msg: core.Hex{0xFF, 0x51, 0x03, byte(us >> 16), byte(us >> 8), byte(us)}})
					}
				} else {
					evs = append(evs, PlayEv{Delta: d, Msg: uniq(t)})
				}
			default: // some sysex
				evs = append(evs, PlayEv{Delta: d, Msg: append(append(core.Hex{0xF0}, r.Data7(r.Range(0, 5))...), 0xF7)})
			}
		}
		s.Tracks = append(s.Tracks, evs)
	}
	// selection
	if r.Chance(1, 3) {
		for t := 0; t < nTracks; t++ {
			if r.Chance(1, 2) {
				s.Select = append(s.Select, t)
			}
		}
		if r.Chance(1, 4) {
			s.Select = append(s.Select, nTracks+1) // selecting a non-existent track is harmless
		}
	}
	nPorts := r.Range(1, 3)
	for p := 0; p < nPorts; p++ {
		var pc PortCfg
		if r.Chance(1, 4) && !hugeCount {
			for i := r.Range(1, 4); i > 0; i-- {
				pc.LatencyUs = append(pc.LatencyUs, r.PickInt(0, 1, 50, 1000, 20000, 1000000))
			}
		}
		if r.Chance(1, 6) {
			pc.ErrEvery = r.Range(1, 5)
		}
		s.Ports = append(s.Ports, pc)
	}
	s.Twice = r.Chance(1, 6)
	s.ViaFile = r.Chance(1, 10)
	s.Default = -1
	if r.Chance(1, 3) {
		s.Mode = "play"
		s.Default = 0
	} else {
		s.Mode = "multi"
		if r.Chance(2, 3) {
			s.Default = r.Intn(nPorts)
		}
		for t := 0; t < nTracks; t++ {
			if r.Chance(1, 2) && (!manyTracks || r.Chance(1, 40)) {
				s.Map = append(s.Map, [2]int{t, r.Intn(nPorts)})
			}
		}
		if len(s.Map) == 0 && s.Default < 0 {
			s.Default = 0
		}
	}
	return s
}

func (s *PlaySc) Size() int {
	n := len(s.Select) + len(s.Map) + len(s.Ports)
	for _, t := range s.Tracks {
		n += 1 + len(t)
	}
	return n
}

func (s *PlaySc) clone() *PlaySc {
	c := *s
	c.Tracks = make([][]PlayEv, len(s.Tracks))
	for i := range s.Tracks {
		c.Tracks[i] = append([]PlayEv{}, s.Tracks[i]...)
	}
	c.Select = append([]int{}, s.Select...)
	c.Map = append([][2]int{}, s.Map...)
	c.Ports = append([]PortCfg{}, s.Ports...)
	return &c
}

func (s *PlaySc) Shrinks(try func(core.Scenario) bool) bool {
	// drop trailing tracks (keeps indices of the others stable)
	if n := len(s.Tracks); n > 1 {
		c := s.clone()
		c.Tracks = c.Tracks[:n-1]
		var m [][2]int
		for _, p := range c.Map {
			if p[0] < n-1 {
				m = append(m, p)
			}
		}
		c.Map = m
		if try(c) {
			return true
		}
	}
	for i := range s.Tracks {
		if core.ShrinkList(s.Tracks[i], func(evs []PlayEv) bool {
			c := s.clone()
			c.Tracks[i] = evs
			return try(c)
		}) {
			return true
		}
	}
	for i := range s.Tracks {
		for j, e := range s.Tracks[i] {
			if core.ShrinkOver() {
				return false
			}
			if e.Delta != 0 {
				c := s.clone()
				c.Tracks[i][j].Delta = 0
				if try(c) {
					return true
				}
				if e.Delta > 1 {
					c := s.clone()
					c.Tracks[i][j].Delta = 1
					if try(c) {
						return true
					}
				}
			}
		}
	}
	if len(s.Select) > 0 {
		c := s.clone()
		c.Select = nil
		if try(c) {
			return true
		}
	}
	for i := range s.Ports {
		if len(s.Ports[i].LatencyUs) > 0 || s.Ports[i].ErrEvery != 0 {
			c := s.clone()
			c.Ports[i] = PortCfg{}
			if try(c) {
				return true
			}
		}
	}
	for i := range s.Map {
		c := s.clone()
		c.Map = append(c.Map[:i], c.Map[i+1:]...)
		if len(c.Map) == 0 && c.Default < 0 {
			continue
		}
		if try(c) {
			return true
		}
	}
	return false
}

// simOut is the simulated output port: it records every Send with the fake instant.
type simOut struct {
	id    int
	cfg   PortCfg
	open  bool
	calls int
	log   *[]sendRec
	seq   *int
	start *time.Time
}

type sendRec struct {
	port int
	seq  int
	at   time.Duration
	data []byte
	// failed: this Send returned the injected port error
	failed bool
}

var errPort = errors.New("simulated port send error")

func (o *simOut) Open() error             { o.open = true; return nil }
func (o *simOut) Close() error            { o.open = false; return nil }
func (o *simOut) IsOpen() bool            { return o.open }
func (o *simOut) Number() int             { return o.id }
func (o *simOut) String() string          { return fmt.Sprintf("simout-%d", o.id) }
func (o *simOut) Underlying() interface{} { return nil }
func (o *simOut) Send(b []byte) error {
	*o.log = append(*o.log, sendRec{port: o.id, seq: *o.seq, at: time.Since(*o.start), data: append([]byte{}, b...)})
	*o.seq++
	o.calls++
	if n := len(o.cfg.LatencyUs); n > 0 {
		if d := o.cfg.LatencyUs[(o.calls-1)%n]; d > 0 {
			time.Sleep(time.Duration(d) * time.Microsecond)
		}
	}
	if o.cfg.ErrEvery > 0 && o.calls%o.cfg.ErrEvery == 0 {
		(*o.log)[len(*o.log)-1].failed = true
		return errPort
	}
	return nil
}

var _ drivers.Out = (*simOut)(nil)

type expPlay struct {
	track int
	idx   int
	port  int
	sched *big.Rat // microseconds
	msg   []byte
}

// refPlay computes, per channel message, the scheduled time by exact rational tempo
// integration (120 BPM before the first tempo event; each tempo valid from its tick).
func (s *PlaySc) refPlay() (exp map[string]*expPlay, order [][]*expPlay, segments int) {
	type tc struct {
		tick int64
		us   int64
	}
	var tcs []tc
	if len(s.Tracks) > 0 {
		var abs int64
		for _, e := range s.Tracks[0] {
			abs += int64(e.Delta)
			if len(e.Msg) == 6 && e.Msg[0] == 0xFF && e.Msg[1] == 0x51 {
				tcs = append(tcs, tc{abs, int64(e.Msg[3])<<16 | int64(e.Msg[4])<<8 | int64(e.Msg[5])})
			}
		}
	}
	segments = len(tcs) + 1
	// cumulative time at every tempo event (exact), so that a query is a binary search
	cum := make([]*big.Rat, len(tcs))
	{
		t := new(big.Rat)
		cur, last := int64(500000), int64(0)
		for i, c := range tcs {
			t = new(big.Rat).Add(t, big.NewRat((c.tick-last)*cur, int64(s.Res)))
			cum[i] = t
			last, cur = c.tick, c.us
		}
	}
	timeAt := func(tick int64) *big.Rat {
		// the last tempo event strictly before the tick (of several on one tick: the later one)
		lo, hi := 0, len(tcs)
		for lo < hi {
			mid := (lo + hi) / 2
			if tcs[mid].tick < tick {
				lo = mid + 1
			} else {
				hi = mid
			}
		}
		if lo == 0 {
			return big.NewRat(tick*500000, int64(s.Res))
		}
		c := tcs[lo-1]
		return new(big.Rat).Add(cum[lo-1], big.NewRat((tick-c.tick)*c.us, int64(s.Res)))
	}
	sel := map[int]bool{}
	for _, t := range s.Select {
		sel[t] = true
	}
	portOf := map[int]int{}
	for _, p := range s.Map {
		portOf[p[0]] = p[1]
	}
	exp = map[string]*expPlay{}
	order = make([][]*expPlay, len(s.Tracks))
	for ti, tr := range s.Tracks {
		if len(sel) > 0 && !sel[ti] {
			continue
		}
		port, ok := portOf[ti]
		if s.Mode == "play" {
			port, ok = 0, true
		} else if !ok {
			port, ok = s.Default, s.Default >= 0
		}
		if !ok {
			continue
		}
		var abs int64
		for _, e := range tr {
			abs += int64(e.Delta)
			if len(e.Msg) > 0 && e.Msg[0] >= 0x80 && e.Msg[0] <= 0xEF {
				x := &expPlay{track: ti, idx: len(order[ti]), port: port, sched: timeAt(abs), msg: e.Msg}
				exp[string(e.Msg)] = x
				order[ti] = append(order[ti], x)
			}
		}
	}
	return
}

func (s *PlaySc) Run(env *core.Env, st *core.Stats) (vs []core.Violation) {
	st.Eval(1)
	// build the file through the API and write it
	f := smf.NewSMF1()
	f.TimeFormat = smf.MetricTicks(s.Res)
	for _, tr := range s.Tracks {
		var t smf.Track
		for _, e := range tr {
			t.Add(e.Delta, append([]byte{}, e.Msg...))
		}
		t.Close(0)
		f.Add(t)
	}
	var bf bytes.Buffer
	if _, err := f.WriteTo(&bf); err != nil {
		st.Probe("source-unusable")
		return nil
	}
	exp, order, segments := s.refPlay()
	sameTickTempo := false
	{
		var abs, lastT int64 = 0, -1
		for _, e := range s.Tracks[0] {
			abs += int64(e.Delta)
			if len(e.Msg) == 6 && e.Msg[0] == 0xFF && e.Msg[1] == 0x51 {
				if abs == lastT {
					sameTickTempo = true
				}
				lastT = abs
			}
		}
	}

	var log, firstLog []sendRec
	var playErr, firstErr error // playErr: of the last playback, firstErr: of the first of two
	var readErr error
	var pan string
	var total time.Duration
	body := func(t *testing.T) {
		defer func() {
			if p := recover(); p != nil {
				pan = fmt.Sprint(p)
			}
		}()
		seq := 0
		start := time.Now()
		ports := make([]*simOut, len(s.Ports))
		for i := range ports {
			ports[i] = &simOut{id: i, cfg: s.Ports[i], log: &log, seq: &seq, start: &start}
		}
		var tr *smf.TracksReader
		if s.ViaFile && env != nil && env.T != nil {
			path := tempDir(env) + "/play.mid"
			if err := os.WriteFile(path, bf.Bytes(), 0o644); err != nil {
				panic(err)
			}
			tr = smf.ReadTracks(path, s.Select...)
			os.Remove(path)
		} else {
			tr = smf.ReadTracksFrom(bytes.NewReader(bf.Bytes()), s.Select...)
		}
		if tr.Error() != nil {
			readErr = tr.Error()
			return
		}
		rounds := 1
		if s.Twice {
			rounds = 2
		}
		for round := 0; round < rounds; round++ {
			if round == 1 {
				firstErr, playErr = playErr, nil
				firstLog = append([]sendRec{}, log...)
				log = log[:0]
				seq = 0
				for _, p := range ports {
					p.calls = 0
				}
			}
			start = time.Now()
			rot := 0
			if round == 1 {
				rot = 1 // the second playback uses the next port for everything
			}
			np := len(ports)
			if s.Mode == "play" {
				playErr = tr.Play(ports[rot%np])
			} else {
				m := map[int]drivers.Out{}
				for _, p := range s.Map {
					ports[(p[1]+rot)%np].Open()
					m[p[0]] = ports[(p[1]+rot)%np]
				}
				if s.Default >= 0 {
					ports[(s.Default+rot)%np].Open()
					m[-1] = ports[(s.Default+rot)%np]
				}
				playErr = tr.MultiPlay(m)
			}
			total += time.Since(start)
		}
	}
	if env != nil && env.T != nil {
		runBubble(env, body)
	} else {
		body(nil)
	}
	desc := func() string {
		js, _ := json.Marshal(s)
		return core.Trunc(string(js), 500)
	}
	if pan != "" {
		return []core.Violation{core.V("panic", panicKey(pan), "playback panicked: %s; %s", pan, desc())}
	}
	if readErr != nil {
		return []core.Violation{core.V("play-error", "err", "playback of a valid metric file failed: %v; %s", readErr, desc())}
	}

	if st != nil {
		st.SimTime(total)
		h := core.NewHash().Int(int(s.Res)).Str(s.Mode).Int(s.Default)
		maxTie := 0
		ties := map[string]int{}
		tracksAt := map[string]map[int]bool{}
		for _, x := range exp {
			k := x.sched.String()
			ties[k]++
			if tracksAt[k] == nil {
				tracksAt[k] = map[int]bool{}
			}
			tracksAt[k][x.track] = true
		}
		crossTie := false
		for k, n := range ties {
			if n > maxTie {
				maxTie = n
			}
			if len(tracksAt[k]) > 1 {
				crossTie = true
			}
		}
		st.ProbeIf(crossTie, "cross-track-tie")
		for ti, tr := range s.Tracks {
			for _, e := range tr {
				h = h.Int(ti).U64(uint64(e.Delta)).Bytes(e.Msg)
			}
		}
		for _, sel := range s.Select {
			h = h.Int(sel)
		}
		for _, p := range s.Map {
			h = h.Int(p[0]).Int(p[1])
		}
		if len(exp) > 1 {
			st.Distinct(h)
		}
		switch {
		case maxTie > 12:
			st.Probe("more-than-12-events-share-a-time")
			st.ReachKey("tie>12")
		case maxTie > 1:
			st.ReachKey("tie2..12")
		default:
			st.ReachKey("no-tie")
		}
		if len(s.Select) > 0 {
			st.ReachKey("with-selection")
		} else {
			st.ReachKey("all-tracks")
		}
		st.ReachKey("mode-" + s.Mode)
		if s.Mode == "multi" {
			if s.Default >= 0 {
				st.ReachKey("map-with-default")
			} else {
				st.ReachKey("map-without-default")
			}
		}
		if segments > 1 {
			st.Probe("tempo-changes")
		}
		if sameTickTempo {
			st.Probe("two-tempo-events-on-one-tick")
		}
		st.ProbeIf(len(s.Tracks) > 256, "more-than-256-tracks")
		st.ProbeIf(len(exp) > 65536, "more-than-65536-playable-events")
		for _, p := range s.Ports {
			if len(p.LatencyUs) > 0 {
				st.Fault("port-latency")
			}
			if p.ErrEvery > 0 {
				st.Fault("port-send-error")
			}
		}
		if s.Size() < 200 {
			st.Sample(s)
		}
	}

	// oracle (applied to each playback on its own)
	if s.Twice {
		st.Probe("same-TracksReader-played-twice")
		if v := s.checkPlayback(firstLog, firstErr, exp, order, segments, desc, "first playback: "); v != nil {
			return v
		}
		if firstErr != nil {
			// the first playback reported a failing port: what a second one of the same reader
			// does then is not fixed by the property
			st.Probe("second-playback-after-a-reported-port-error")
			return nil
		}
		// expected ports of the second playback: rotated by one
		exp2 := map[string]*expPlay{}
		order2 := make([][]*expPlay, len(order))
		for ti := range order {
			for _, x := range order[ti] {
				y := *x
				y.port = (x.port + 1) % len(s.Ports)
				exp2[string(y.msg)] = &y
				order2[ti] = append(order2[ti], &y)
			}
		}
		return s.checkPlayback(log, playErr, exp2, order2, segments, desc, "second playback of the same TracksReader (ports rotated by one): ")
	}
	return s.checkPlayback(log, playErr, exp, order, segments, desc, "")
}

func (s *PlaySc) checkPlayback(log []sendRec, playErr error, exp map[string]*expPlay, order [][]*expPlay, segments int, desc func() string, which string) []core.Violation {
	desc0 := desc
	desc = func() string { return which + desc0() }
	// A port that reports a failure (injected): the playback may report it and may stop there.
	// Everything else still holds for what is sent, and everything scheduled before the first
	// failed Send must have been sent. Without a failing port an error is a violation.
	firstFailed := -1
	for i, r := range log {
		if r.failed {
			firstFailed = i
			break
		}
	}
	if playErr != nil && firstFailed < 0 {
		return []core.Violation{core.V("play-error", "err", "playback of a valid metric file failed although no port reported an error: %v; %s", playErr, desc())}
	}
	var cut *big.Rat // scheduled time reached when the first Send failed
	if firstFailed >= 0 {
		cut = new(big.Rat)
		for _, r := range log[:firstFailed+1] {
			if x := exp[string(r.data)]; x != nil && x.sched.Cmp(cut) > 0 {
				cut = x.sched
			}
		}
	}
	tol := big.NewRat(int64(segments), 1) // 1 microsecond per tempo segment
	seen := map[string]bool{}
	lastIdx := map[int]int{}
	var lastSched *big.Rat
	var lastMsg []byte
	for _, r := range log {
		if len(r.data) == 0 {
			return []core.Violation{core.V("unexpected-send", "empty", "empty message sent to port %d; %s", r.port, desc())}
		}
		if r.data[0] == 0xFF {
			return []core.Violation{core.V("meta-sent", "meta", "meta event % X was sent to port %d; %s", r.data, r.port, desc())}
		}
		if r.data[0] < 0x80 || r.data[0] > 0xEF {
			continue // sysex and anything else: the property speaks of channel messages and meta events only
		}
		x := exp[string(r.data)]
		if x == nil {
			return []core.Violation{core.V("unexpected-send", "not-selected-or-altered", "message % X was sent to port %d but is not a channel message of a selected and mapped track; %s", r.data, r.port, desc())}
		}
		if seen[string(r.data)] {
			return []core.Violation{core.V("exactly-once", "twice", "message % X of track %d was sent more than once; %s", r.data, x.track, desc())}
		}
		seen[string(r.data)] = true
		if r.port != x.port {
			return []core.Violation{core.V("port-mapping", "wrong-port", "message % X of track %d went to port %d, mapped port is %d; %s", r.data, x.track, r.port, x.port, desc())}
		}
		if li, ok := lastIdx[x.track]; ok && x.idx < li {
			return []core.Violation{core.V("file-order", "within-track", "track %d: message #%d (% X) left after message #%d although it precedes it in the file (both scheduled: %s us); %s", x.track, x.idx, r.data, li, x.sched.FloatString(1), desc())}
		}
		lastIdx[x.track] = x.idx
		if lastSched != nil && x.sched.Cmp(lastSched) < 0 {
			d := new(big.Rat).Sub(lastSched, x.sched)
			if d.Cmp(tol) > 0 {
				return []core.Violation{core.V("merge-order", "time-decreases", "message % X scheduled at %s us was sent after % X scheduled at %s us; %s", r.data, x.sched.FloatString(1), lastMsg, lastSched.FloatString(1), desc())}
			}
		}
		lastSched, lastMsg = x.sched, r.data
		// never early: send instant - start >= scheduled - tolerance
		at := big.NewRat(int64(r.at), 1000) // ns -> us
		if new(big.Rat).Add(at, tol).Cmp(x.sched) < 0 {
			return []core.Violation{core.V("early", "early", "message % X of track %d was sent %s us after the start of playback, scheduled time is %s us; %s", r.data, x.track, at.FloatString(1), x.sched.FloatString(1), desc())}
		}
	}
	for ti := range order {
		for _, x := range order[ti] {
			if !seen[string(x.msg)] && cut != nil && x.sched.Cmp(cut) >= 0 {
				continue // not sent after a port had reported a failure: the playback may stop there
			}
			if !seen[string(x.msg)] {
				return []core.Violation{core.V("exactly-once", "missing", "message #%d (% X) of track %d was never sent to port %d; %s", x.idx, x.msg, ti, x.port, desc())}
			}
		}
	}
	return nil
}
