package worlds

import (
	"bytes"
	"encoding/json"
	"fmt"
	"io"
	"os"
	"syscall"

	"verif/sim/core"
	"verif/sim/simio"
)

// IOFault is the I/O fault configuration of smfworld (C10): for one file, a failure is
// injected at every byte offset of the output stream (two legal forms) and at every
// consumed byte offset of the input stream (two legal forms).
type IOFault struct {
	Src *FileSrc `json:"src"` // write side needs a history; read side takes either
	// Pin restricts the run to one fault (set by the shrinker): side "write"|"read".
	PinSide string `json:"pin_side,omitempty"`
	PinK    int    `json:"pin_k,omitempty"`
	PinForm bool   `json:"pin_form,omitempty"` // write: short write; read: error together with data
	// PinForm2: write: the destination fails once and recovers (short or not by the parity of k)
	PinForm2 bool `json:"pin_form2,omitempty"`
	// ErrKind selects the error value the failing source/destination returns
	// (0 a private error, 1 io.ErrUnexpectedEOF, 2 io.ErrClosedPipe, 3 io.ErrNoProgress, 4 syscall.ECONNRESET,
	// 5 os.ErrDeadlineExceeded, 6 syscall.EAGAIN, 7 syscall.EINTR - the last three call themselves temporary).
	ErrKind int `json:"err_kind,omitempty"`
}

func (s *IOFault) errValue() error {
	switch s.ErrKind {
	case 1:
		return io.ErrUnexpectedEOF
	case 2:
		return io.ErrClosedPipe
	case 3:
		return io.ErrNoProgress
	case 4:
		return syscall.ECONNRESET
	case 5:
		return os.ErrDeadlineExceeded // Timeout() and Temporary() report true
	case 6:
		return syscall.EAGAIN // Temporary() reports true
	case 7:
		return syscall.EINTR
	}
	return simio.ErrInjected
}

type ioFaultWorld struct{}

func (ioFaultWorld) Gen(seed uint64, tier string) core.Scenario {
	r := core.NewRand(seed)
	var src *FileSrc
	if r.Chance(3, 4) {
		src = &FileSrc{Hist: genAPIHist(r, tier, false)}
	} else {
		src = &FileSrc{Foreign: genForeign(r, tier)}
		if r.Chance(1, 3) {
			// as streaming writers do: the length word of every track chunk is zero (the
			// library does not need it to read the file)
			src.ZeroLengths = true
		}
	}
	return &IOFault{Src: src, ErrKind: r.Weighted(40, 15, 8, 8, 8, 8, 8, 5)}
}
func (ioFaultWorld) Decode(raw json.RawMessage) (core.Scenario, error) {
	var s IOFault
	if err := json.Unmarshal(raw, &s); err != nil {
		return nil, err
	}
	if s.Src == nil {
		return nil, fmt.Errorf("no source")
	}
	return &s, nil
}
func (s *IOFault) Size() int {
	n := s.Src.size()
	if s.PinSide == "" {
		n++ // "all offsets" counts as one more degree of freedom
	}
	return n
}

func (s *IOFault) Shrinks(try func(core.Scenario) bool) bool {
	if s.Src.shrinks(func(fs *FileSrc) bool {
		c := *s
		c.Src = fs
		c.PinSide = ""
		return try(&c)
	}) {
		return true
	}
	if s.ErrKind != 0 {
		c := *s
		c.ErrKind = 0
		if try(&c) {
			return true
		}
	}
	if s.PinSide == "" {
		n := len(s.Src.produce().data)
		for _, side := range []string{"write", "read"} {
			for k := 0; k < n; k++ {
				for _, form := range []bool{false, true} {
					c := *s
					c.PinSide, c.PinK, c.PinForm = side, k, form
					if try(&c) {
						return true
					}
				}
				if side == "write" {
					c := *s
					c.PinSide, c.PinK, c.PinForm2 = side, k, true
					if try(&c) {
						return true
					}
				}
			}
		}
	}
	return false
}

func (s *IOFault) Run(env *core.Env, st *core.Stats) (vs []core.Violation) {
	sf := s.Src.produce()
	if sf.bad != "" {
		st.Probe("source-unusable")
		return nil
	}
	S := len(sf.data)
	regionAt := func(k int) string {
		if k < len(sf.regions) {
			return sf.regions[k]
		}
		return "?"
	}
	if st != nil {
		st.Sample(map[string]any{"file_hex": core.Trunc(core.HexStr(sf.data), 400), "size": S, "faults": "write: accept k bytes then fail ((0,err) and short write) for every k<size; read: deliver k bytes then sticky error (plain and error-with-data) for every consumed k"})
	}

	// ---------------- write side (needs the value, i.e. a history)
	if s.Src.Hist != nil && s.PinSide != "read" {
		writeFault := func(k int, form int) bool {
			short := form == 1 || (form == 2 && k%2 == 1)
			val, _, _ := s.Src.Hist.Build()
			d := &simio.Disk{Limit: k, Short: short, Err: s.errValue(), Transient: form == 2}
			o := writeTo(val, d)
			st.Eval(1)
			switch {
			case form == 2:
				st.Fault("write-error-once-then-recovers")
			case short:
				st.Fault("write-short")
			default:
				st.Fault("write-error")
			}
			st.Region("write:" + regionAt(k))
			st.Distinct(core.NewHash().Bytes(sf.data).Int(k).Str("w"))
			if o.call.panicked || o.call.timeout {
				vs = append(vs, core.V("panic", panicKey(o.call.panicMsg), "WriteTo with failing destination at byte %d: %s", k, o.call.panicMsg))
				return false
			}
			if o.err != nil && k%7 == 3 {
				// the value is still good after a failed write: writing it again to a sound
				// destination gives the complete file
				st.Probe("write-again-after-a-failed-write")
				d2 := &simio.Disk{Limit: -1}
				o2 := writeTo(val, d2)
				if o2.call.panicked || o2.err != nil || !bytes.Equal(d2.Stored, sf.data) {
					vs = append(vs, core.V("write-after-failure", "second-write", "after a write that failed at byte %d, writing the same value again gives err=%v %s and %d bytes (the fault-free file has %d)", k, o2.err, o2.call.panicMsg, len(d2.Stored), S))
					return false
				}
			}
			if o.err == nil {
				vs = append(vs, core.V("write-error-swallowed", "write:"+keyRegion(regionAt(k)),
					"destination accepted %d bytes of a %d byte file, then one Write failed (short=%v, recovers afterwards=%v, region %s, %d failing Write calls seen, %d bytes accepted in the end) but WriteTo returned nil error, size=%d",
					k, S, short, d.Transient, regionAt(k), d.Fails, len(d.Stored), o.size))
				return false
			}
			return true
		}
		if s.PinSide == "write" {
			if s.PinK < S {
				form := 0
				if s.PinForm {
					form = 1
				}
				if s.PinForm2 {
					form = 2
				}
				writeFault(s.PinK, form)
			}
			return vs
		}
		// fault-free run: nil error, exact size
		{
			val, _, _ := s.Src.Hist.Build()
			d := &simio.Disk{Limit: -1}
			o := writeTo(val, d)
			st.Eval(1)
			if o.err != nil || o.call.panicked {
				vs = append(vs, core.V("nofault-write-error", "err", "fault-free WriteTo failed: %v %s", o.err, o.call.panicMsg))
				return vs
			}
			if o.size != int64(len(d.Stored)) {
				vs = append(vs, core.V("size", "size", "fault-free WriteTo reported size %d but %d bytes were accepted", o.size, len(d.Stored)))
			}
		}
		for k := 0; k < S; k++ {
			if !writeFault(k, 0) || !writeFault(k, 1) || !writeFault(k, 2) {
				return vs
			}
			if k%64 == 63 && core.CapReached() {
				st.Probe("enumeration-cut-short-by-the-wall-clock-cap")
				return vs
			}
		}
	}

	// ---------------- the file-name API on a device that is full (a real failing file system:
	// a symbolic link in the scratch directory to /dev/full, so that WriteFile's own clean-up
	// removes only the link)
	if s.Src.Hist != nil && s.PinSide == "" && env != nil && env.T != nil && S%4 == 0 {
		if fi, err := os.Stat("/dev/full"); err == nil && fi.Mode()&os.ModeCharDevice != 0 {
			link := tempDir(env) + "/full.mid"
			os.Remove(link)
			if err := os.Symlink("/dev/full", link); err == nil {
				val, _, _ := s.Src.Hist.Build()
				var werr error
				g := guarded(libBudget, false, func() { werr = val.WriteFile(link) })
				os.Remove(link)
				st.Eval(1)
				st.Fault("disk-full(WriteFile)")
				if g.panicked || g.timeout {
					vs = append(vs, core.V("panic", panicKey(g.panicMsg), "WriteFile on a full device: %s", g.panicMsg))
					return vs
				}
				if werr == nil {
					vs = append(vs, core.V("write-error-swallowed", "writefile:disk-full", "WriteFile onto a full device (every write fails with ENOSPC) returned nil for a file of %d bytes", S))
					return vs
				}
			}
		}
	}

	// ---------------- read side
	if s.PinSide != "write" {
		// how many bytes does the fault-free read consume?
		cr := &simio.CountReader{R: &simio.FragReader{Data: sf.data}}
		base := readFrom(cr, S, false)
		if base.kind() == "panic" || base.kind() == "timeout" {
			st.Probe("baseline-panics")
			return vs
		}
		consumed := cr.N
		baseSig := outcomeSig(base)
		readFault := func(k int, withData bool) bool {
			fr := &simio.FailReader{Data: sf.data, K: k, WithData: withData, Err: s.errValue()}
			o := readFrom(fr, S, false)
			st.Eval(1)
			if withData {
				st.Fault("read-error-with-data")
			} else {
				st.Fault("read-error")
			}
			st.Region("read:" + regionAt(k))
			st.Distinct(core.NewHash().Bytes(sf.data).Int(k).Str("r"))
			if !fr.Failed {
				st.Probe("read-fault-not-reached")
				return true // the library stopped reading before the fault: nothing to demand
			}
			if o.call.panicked || o.call.timeout {
				vs = append(vs, core.V("panic", panicKey(o.call.panicMsg), "ReadFrom with failing source at byte %d: %s", k, o.call.panicMsg))
				return false
			}
			if o.err == nil && outcomeSig(o) == baseSig {
				// the source failed in bytes the library may take (read-ahead) but does not need:
				// the value is the complete, fault-free one, not "a silently shortened file"
				st.Probe("read-fault-in-bytes-not-needed")
				return true
			}
			if o.err == nil {
				vs = append(vs, core.V("read-error-swallowed", "read:"+keyRegion(regionAt(k)),
					"source delivered %d of %d bytes and then failed with a non-EOF error (with_data=%v, region %s) but ReadFrom returned nil error (%s)",
					k, S, withData, regionAt(k), describeOutcome(o)))
				return false
			}
			return true
		}
		if s.PinSide == "read" {
			if s.PinK < consumed {
				readFault(s.PinK, s.PinForm)
			}
			return vs
		}
		for k := 0; k < consumed; k++ {
			if k%64 == 63 && core.CapReached() {
				st.Probe("enumeration-cut-short-by-the-wall-clock-cap")
				return vs
			}
			if !readFault(k, false) {
				return vs
			}
			if k > 0 && !readFault(k, true) {
				return vs
			}
		}
	}
	return vs
}

// keyRegion collapses byte regions into the classes used for violation keys.
func keyRegion(r string) string {
	switch {
	case len(r) >= 6 && r[:6] == "header":
		return "header"
	case len(r) >= 11 && r[:11] == "track-first":
		return "track-first"
	case len(r) >= 11 && r[:11] == "track-later":
		return "track-later"
	case len(r) >= 5 && r[:5] == "alien":
		return "alien"
	}
	return "track"
}
