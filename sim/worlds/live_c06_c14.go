package worlds

import (
	"bytes"
	"fmt"

	"verif/sim/core"
	"verif/sim/ref"
)

// ---------------------------------------------------------------------------
// C06: noise configuration of liveworld.

func classByte(r *core.Rand) byte {
	switch r.Weighted(14, 14, 30, 26, 16) {
	case 0:
		return byte(r.Intn(0x40))
	case 1:
		return byte(0x40 + r.Intn(0x40))
	case 2:
		return chanStatusKinds[r.Intn(7)] | byte(r.Intn(16))
	case 3:
		return byte(0xF0 + r.Intn(8))
	default:
		return byte(0xF8 + r.Intn(8))
	}
}

func genNoiseBytes(r *core.Rand, n int) []byte {
	b := make([]byte, n)
	mode := r.Intn(3)
	for i := range b {
		switch mode {
		case 0:
			b[i] = classByte(r)
		case 1:
			b[i] = r.Byte()
		default: // mostly data with occasional status
			if r.Chance(1, 6) {
				b[i] = classByte(r)
			} else {
				b[i] = r.Byte() & 0x7F
			}
		}
	}
	return b
}

func genNoise(r *core.Rand, tier string) *Live {
	s := &Live{Prop: "C06", Level: "reader"}
	if r.Chance(1, 3) {
		s.Level = "listen"
	}
	s.Opts = LiveOpts{ActiveSense: r.Bool(), TimeCode: r.Bool(), SysEx: r.Chance(3, 4), BufSize: bufSizes[r.Intn(len(bufSizes))]}
	bs := s.Opts.bufsize()
	switch r.Weighted(35, 10, 35, 20) {
	case 0: // short stream over the class alphabet
		s.Noise = "class-alphabet"
		n := r.Range(1, 64)
		s.Stream = make([]byte, n)
		for i := range s.Stream {
			s.Stream[i] = classByte(r)
		}
	case 1:
		s.Noise = "long-random"
		n := r.Range(100, 1200)
		if tier == "thorough" {
			n = r.Range(100, 6000)
		}
		s.Stream = genNoiseBytes(r, n)
	case 2: // garbage prefix, then a well-formed stream
		var prefix []byte
		switch r.Intn(4) {
		case 0: // hot-plug: listener attached in the middle of a message
			s.Noise = "hotplug-mid-message"
			m := genChanMsg(r, 0)
			prefix = m[1+r.Intn(len(m)-1):]
		case 1: // hot-plug inside a sysex dump
			s.Noise = "hotplug-mid-sysex"
			prefix = append(r.Data7(r.Range(0, 20)), 0xF7)
			if r.Chance(1, 2) {
				prefix = prefix[:len(prefix)-1]
			}
		case 2:
			s.Noise = "garbage-prefix"
			prefix = genNoiseBytes(r, r.Range(1, 40))
		default: // truncated message interrupted by the first status of the suffix
			s.Noise = "truncated-message-prefix"
			m := genChanMsg(r, 0)
			if r.Chance(1, 3) {
				m = []byte{0xF2, r.Byte() & 0x7F, r.Byte() & 0x7F}
			}
			prefix = m[:1+r.Intn(len(m)-1)]
			if r.Chance(1, 3) {
				prefix = append([]byte{0xF0}, r.Data7(r.Range(0, bs+3))...)
			}
		}
		all := s.Opts
		all.ActiveSense, all.TimeCode, all.SysEx = true, true, true
		var stream []byte
		var sent []SentMsg
		for tries := 0; ; tries++ {
			stream, sent = genWellFormed(r, all, r.PickInt(1, 2, 4, 8), true)
			// the suffix must start with an explicit non-real-time status byte
			if len(stream) > 0 && stream[0] >= 0x80 && stream[0] < 0xF8 {
				break
			}
		}
		s.Prefix = len(prefix)
		s.Stream = append(append(core.Hex{}, prefix...), stream...)
		for i := range sent {
			sent[i].Start += s.Prefix
			sent[i].End += s.Prefix
		}
		s.Sent = sent
	default: // oversize sysex between ordinary messages
		s.Noise = "oversize-sysex"
		var b []byte
		b = append(b, genChanMsg(r, 0)...)
		total := bs + r.PickInt(-1, 0, 1, 1, 2, 9*bs)
		if total < 2 {
			total = 2
		}
		if total > 80000 {
			total = bs + 2
		}
		sx := genSysex(r, bs, total)
		if r.Chance(1, 4) { // real-time inside the dump
			k := r.Intn(len(sx)-1) + 1
			sx = append(sx[:k], append([]byte{0xF8}, sx[k:]...)...)
		}
		if r.Chance(1, 6) { // never terminated, interrupted by a status
			sx = sx[:len(sx)-1]
		}
		b = append(b, sx...)
		for i := r.Range(1, 3); i > 0; i-- {
			b = append(b, genChanMsg(r, 0)...)
		}
		s.Stream = b
	}
	s.Chunks, s.Deltas = genChunks(r, len(s.Stream))
	// the public Reset method: afterwards the decoder is as good as new. Pure noise streams
	// only (a reset in the middle of the well-formed suffix would change what is expected).
	if s.Level == "reader" && len(s.Sent) == 0 && len(s.Chunks) > 1 && r.Chance(1, 5) {
		s.Resets = []int{1 + r.Intn(len(s.Chunks)-1)}
	}
	return s
}

func (s *Live) runC06(env *core.Env, st *core.Stats) (vs []core.Violation) {
	st.Eval(1)
	s.liveEvidence(st)
	if st != nil {
		st.Fault("noise:" + s.Noise)
		st.ProbeIf(len(s.Resets) > 0, "Reader.Reset-in-mid-stream")
	}
	modOpts := s.Opts
	mod := s.model(modOpts, st)
	if s.Level == "listen" {
		mod = filterOpts(mod, s.Opts)
	}
	mod = dropUndefinedRT(mod)
	if st != nil {
		for _, b := range s.Stream {
			if b == 0xF4 || b == 0xF5 {
				st.Probe("undefined-status-F4/F5")
				break
			}
		}
	}

	obs := s.observe(env, s.Opts)
	if obs.panicked {
		return []core.Violation{core.V("panic", panicKey(obs.panicMsg), "live decoder panicked: %s; noise=%s stream(%d)=%s chunks %v opts %+v", obs.panicMsg, s.Noise, len(s.Stream), core.Trunc(core.HexStr(s.Stream), 300), core.Trunc(fmt.Sprint(s.Chunks), 100), s.Opts)}
	}
	// every delivered message is non-empty and well formed
	for i, d := range obs.got {
		if why := s.wellFormed(d, s.Opts.bufsize()); why != "" {
			return []core.Violation{core.V("malformed-delivery", structKey(why, 40), "delivery %d: %s; stream %s chunks %v level %s", i, why, core.Trunc(core.HexStr(s.Stream), 300), core.Trunc(fmt.Sprint(s.Chunks), 100), s.Level)}
		}
	}
	if v := s.retained(obs); v != nil {
		return v
	}
	got := dropUndefinedRTd(obs.got)

	// garbage prefix: the suffix's messages are the tail of what was delivered
	if len(s.Sent) > 0 {
		want := s.expectedFromSent()
		if s.Level == "listen" {
			var w2 []expectMsg
			for _, w := range want {
				switch {
				case w.bytes[0] == 0xFE && !s.Opts.ActiveSense:
				case w.bytes[0] == 0xF8 && !s.Opts.TimeCode:
				case w.bytes[0] == 0xF0 && !s.Opts.SysEx:
				default:
					w2 = append(w2, w)
				}
			}
			want = w2
		} else if !s.Opts.SysEx {
			var w2 []expectMsg
			for _, w := range want {
				if w.bytes[0] != 0xF0 {
					w2 = append(w2, w)
				}
			}
			want = w2
		}
		if len(got) < len(want) {
			vs = append(vs, core.V("resync", "missing", "after the garbage prefix (%d bytes, %s) %d messages follow, only %d deliveries in total; stream %s", s.Prefix, s.Noise, len(want), len(got), core.Trunc(core.HexStr(s.Stream), 300)))
		} else {
			tail := got[len(got)-len(want):]
			if v := s.compare(tail, want, "resync"); len(v) > 0 {
				vs = append(vs, v...)
			}
		}
		if st != nil {
			st.Probe("garbage-prefix-then-wellformed")
		}
	}

	// equality with the receiver model
	for i := 0; i < len(got) && i < len(mod); i++ {
		g, m := got[i], mod[i]
		if !s.matches(g, m.Bytes) {
			vs = append(vs, core.V("receiver-model", "content:"+msgClass(m.Bytes), "delivery %d: receiver model yields % X, decoder delivered % X; stream %s chunks %v opts %+v level %s", i, m.Bytes, g.bytes, core.Trunc(core.HexStr(s.Stream), 300), core.Trunc(fmt.Sprint(s.Chunks), 100), s.Opts, s.Level))
			return vs
		}
		if g.chunk != m.Chunk {
			vs = append(vs, core.V("receiver-model", "moment:"+msgClass(m.Bytes), "delivery %d (% X): model delivers during chunk %d, decoder during chunk %d", i, m.Bytes, m.Chunk, g.chunk))
			return vs
		}
		if g.ts < m.T0 || g.ts > m.T {
			vs = append(vs, core.V("receiver-model", "ts:"+msgClass(m.Bytes), "delivery %d (% X): time stamp %d, model %d..%d", i, m.Bytes, g.ts, m.T0, m.T))
			return vs
		}
	}
	if len(got) != len(mod) {
		key, which := "missing", []byte(nil)
		if len(got) > len(mod) {
			key, which = "extra", got[len(mod)].bytes
		} else {
			which = mod[len(got)].Bytes
		}
		vs = append(vs, core.V("receiver-model", key+":"+msgClass(which), "receiver model delivers %d messages, decoder %d (first %s: % X); stream %s chunks %v opts %+v level %s", len(mod), len(got), key, which, core.Trunc(core.HexStr(s.Stream), 300), core.Trunc(fmt.Sprint(s.Chunks), 100), s.Opts, s.Level))
	}
	return vs
}

// ---------------------------------------------------------------------------
// C14: paired runs under all 8 option sets.

func genC14(r *core.Rand, tier string) *Live {
	s := &Live{Prop: "C14", Level: "listen"}
	s.Opts = LiveOpts{ActiveSense: true, TimeCode: true, SysEx: true, BufSize: bufSizes[r.Intn(len(bufSizes))]}
	n := r.PickInt(2, 3, 5, 10, 25)
	s.Stream, s.Sent = genWellFormed(r, s.Opts, n, true)
	// make sure the filtered classes occur: sprinkle extra FE / F8 between messages
	s.Chunks, s.Deltas = genChunks(r, len(s.Stream))
	// an earlier listener with other options on the same port must not matter
	if r.Chance(1, 4) {
		// another driver instance of the same kind listening with other options is no concern of this one
		s.Decoy = &LiveOpts{ActiveSense: r.Bool(), TimeCode: r.Bool(), SysEx: r.Bool()}
	}
	if r.Chance(1, 4) {
		s.Pre = &LiveOpts{ActiveSense: r.Bool(), TimeCode: r.Bool(), SysEx: r.Bool(), BufSize: s.Opts.BufSize}
		s.PreStopped = r.Chance(1, 2)
	}
	return s
}

func (s *Live) runC14(env *core.Env, st *core.Stats) (vs []core.Violation) {
	s.liveEvidence(st)
	all := s.Opts
	all.ActiveSense, all.TimeCode, all.SysEx = true, true, true
	base := s.observe(env, all)
	st.Eval(1)
	st.ProbeIf(s.Decoy != nil, "second-driver-instance-listening-with-other-options")
	if s.Pre != nil {
		if s.PreStopped {
			st.Probe("earlier-listener-with-other-options-(stopped)")
		} else {
			st.Probe("earlier-listener-with-other-options-(not-stopped)")
		}
	}
	if base.panicked {
		return []core.Violation{core.V("panic", panicKey(base.panicMsg), "decoder panicked with all options on: %s", base.panicMsg)}
	}
	if base.refused {
		st.Probe("second-listener-refused")
		return nil
	}
	if st != nil {
		for _, d := range base.got {
			switch {
			case len(d.bytes) > 0 && d.bytes[0] == 0xFE:
				st.Probe("stream-has-active-sense")
			case len(d.bytes) > 0 && d.bytes[0] == 0xF8:
				st.Probe("stream-has-timing-clock")
			case len(d.bytes) > 0 && d.bytes[0] == 0xF0:
				st.Probe("stream-has-sysex")
			}
		}
	}
	for mask := 0; mask < 7; mask++ {
		o := s.Opts
		o.ActiveSense, o.TimeCode, o.SysEx = mask&1 != 0, mask&2 != 0, mask&4 != 0
		obs := s.observe(env, o)
		st.Eval(1)
		st.ReachKey(fmt.Sprintf("options-as%v-tc%v-sx%v", o.ActiveSense, o.TimeCode, o.SysEx))
		name := fmt.Sprintf("active_sense=%v timing_clock=%v sysex=%v", o.ActiveSense, o.TimeCode, o.SysEx)
		if obs.panicked {
			return []core.Violation{core.V("panic", panicKey(obs.panicMsg), "decoder panicked with %s: %s", name, obs.panicMsg)}
		}
		if obs.refused {
			return nil
		}
		var want []delivered
		for _, d := range base.got {
			if len(d.bytes) > 0 {
				switch {
				case d.bytes[0] == 0xFE && !o.ActiveSense:
					continue
				case d.bytes[0] == 0xF8 && !o.TimeCode:
					continue
				case d.bytes[0] == 0xF0 && !o.SysEx:
					continue
				}
			}
			want = append(want, d)
		}
		for i := 0; i < len(want) && i < len(obs.got); i++ {
			w, g := want[i], obs.got[i]
			if !bytes.Equal(w.bytes, g.bytes) || w.isNil != g.isNil {
				return []core.Violation{core.V("projection", "content:"+msgClass(w.bytes), "with %s message %d is % X, the all-options run minus the filtered classes has % X; stream %s chunks %v", name, i, g.bytes, w.bytes, core.Trunc(core.HexStr(s.Stream), 300), core.Trunc(fmt.Sprint(s.Chunks), 100))}
			}
			if w.ts != g.ts || w.chunk != g.chunk {
				return []core.Violation{core.V("projection", "time:"+msgClass(w.bytes), "with %s message %d (% X) has time stamp %d (chunk %d), in the all-options run %d (chunk %d)", name, i, w.bytes, g.ts, g.chunk, w.ts, w.chunk)}
			}
		}
		if len(want) != len(obs.got) {
			key, which := "missing", []byte(nil)
			if len(obs.got) > len(want) {
				key, which = "extra", obs.got[len(want)].bytes
			} else {
				which = want[len(obs.got)].bytes
			}
			return []core.Violation{core.V("projection", key+":"+msgClass(which), "with %s %d messages are received, projection of the all-options run has %d (first %s: % X); stream %s", name, len(obs.got), len(want), key, which, core.Trunc(core.HexStr(s.Stream), 300))}
		}
	}
	return nil
}

var _ = ref.ByteClass
