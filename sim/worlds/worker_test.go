package worlds

import (
	"testing"

	"verif/sim/core"
)

func TestWorker(t *testing.T) {
	core.StopExploring = Abandoned
	core.WorkerMain(t, Worlds, SelfTest)
}

func TestSelf(t *testing.T) {
	if err := SelfTest(); err != nil {
		t.Fatal(err)
	}
}
