package worlds

import (
	"bytes"
	"encoding/json"
	"fmt"
	"testing"
	"time"

	"gitlab.com/gomidi/midi/v2"
	"gitlab.com/gomidi/midi/v2/drivers"
	"gitlab.com/gomidi/midi/v2/drivers/testdrv"

	"verif/sim/core"
	"verif/sim/ref"
)

// PortOp is one lifecycle call on the in-memory loopback pair.
//
//	openIn openOut closeIn closeOut
//	listen      in.Listen(cb, cfg)            (id = index of the listen op)
//	listenTo    midi.ListenTo(in, cb, opts)   (opens the in port itself)
//	stop        call the stop function returned by listen #Ref
//	send        out.Send(Data)   (one or more whole messages with explicit status)
//	sleep       drv.Sleep(Ms)
type PortOp struct {
	Op   string   `json:"op"`
	Ref  int      `json:"ref,omitempty"`
	Data core.Hex `json:"data,omitempty"`
	Ms   int      `json:"ms,omitempty"`
}

// PortHist is a portworld (a) scenario: a call history on testdrv (C17a).
type PortHist struct {
	Ops []PortOp `json:"ops"`
}

type portHistWorld struct{}

func (portHistWorld) Decode(raw json.RawMessage) (core.Scenario, error) {
	var s PortHist
	if err := json.Unmarshal(raw, &s); err != nil {
		return nil, err
	}
	return &s, nil
}

// portModel is refports (DESIGN.md appendix C).
type portModel struct {
	inOpen, outOpen bool
	listener        int // -1 none
	stopped         map[int]bool
}

func (portHistWorld) Gen(seed uint64, tier string) core.Scenario {
	r := core.NewRand(seed)
	s := &PortHist{}
	m := portModel{listener: -1, stopped: map[int]bool{}}
	var listens []int
	n := r.PickInt(3, 6, 10, 20, 30)
	if tier == "thorough" && r.Chance(1, 4) {
		n = 60
	}
	for len(s.Ops) < n {
		var op PortOp
		switch r.Weighted(8, 10, 6, 6, 14, 12, 36, 8) {
		case 0:
			op.Op = "openIn"
			if r.Chance(1, 4) {
				op.Op = "inByNumber" // drivers.InByNumber(0): look the port up in the registry and open it
			}
			m.inOpen = true
		case 1:
			op.Op = "openOut"
			if r.Chance(1, 4) {
				op.Op = "outByName" // drivers.OutByName(name)
			}
			m.outOpen = true
		case 2:
			if m.listener >= 0 { // the listening must be stopped before the port may be closed
				continue
			}
			op.Op = "closeIn"
			m.inOpen = false
		case 3:
			op.Op = "closeOut"
			m.outOpen = false
		case 4:
			if m.inOpen && r.Chance(1, 40) {
				// a burst: stop and listen again N times in a row (counters that wrap)
				op.Op = "relisten"
				op.Ms = r.PickInt(3, 254, 255, 256, 257, 300)
				if m.listener >= 0 {
					m.stopped[m.listener] = true
				}
				m.listener = len(s.Ops)
				listens = append(listens, len(s.Ops))
				s.Ops = append(s.Ops, op)
				continue
			}
			if m.listener >= 0 && !r.Chance(1, 8) {
				// normally at most one listener; now and then a Listen while one is active:
				// a driver may refuse it (error, nothing changes) or let it replace the old one
				continue
			}
			if r.Chance(1, 2) {
				op.Op = "listenTo"
				m.inOpen = true
			} else {
				if !m.inOpen {
					continue
				}
				op.Op = "listen"
			}
			m.listener = len(s.Ops)
			listens = append(listens, len(s.Ops))
		case 5:
			if len(listens) == 0 {
				continue
			}
			op.Op = "stop"
			if m.listener >= 0 && r.Chance(3, 4) {
				op.Ref = m.listener
			} else {
				op.Ref = listens[r.Intn(len(listens))] // stop twice / stale stop function
			}
			if m.listener == op.Ref {
				m.listener = -1
			}
			m.stopped[op.Ref] = true
		case 6:
			op.Op = "send"
			if r.Chance(1, 8) {
				op.Op = "sendTo" // midi.SendTo(out) opens the port if necessary, then sends
				m.outOpen = true
			}
			k := 1
			if r.Chance(1, 5) {
				k = r.Range(2, 3)
			}
			if r.Chance(1, 10) {
				// a message the listener answers from inside the callback, depth times (echo / thru)
				op.Data = core.Hex{0xBF, 0x70, byte(r.PickInt(1, 2, 3, 3, 65, 100, 127))}
				if m.listener >= 0 && m.outOpen && r.Chance(1, 2) {
					// BF 71: the listener stops itself from inside the callback and then sends once more
					op.Data = core.Hex{0xBF, 0x71, 0x00}
					m.stopped[m.listener] = true
					m.listener = -1
				}
				s.Ops = append(s.Ops, op)
				continue
			}
			if r.Chance(1, 12) {
				k = 0 // an empty chunk: nothing to deliver, but the port state still decides the result
			}
			for i := 0; i < k; i++ {
				switch r.Weighted(70, 15, 15) {
				case 0:
					cm := genChanMsg(r, 0)
					if cm[0] == 0xBF {
						cm[0] = 0xBE // BF 70 n is the echo request; it is only sent alone (see below)
					}
					op.Data = append(op.Data, cm...)
				case 1:
					op.Data = append(op.Data, rtDefined[1+r.Intn(3)]) // FA FB FC
				default:
					op.Data = append(op.Data, 0xF3, r.Byte()&0x7F)
				}
			}
		default:
			op.Op = "sleep"
			op.Ms = r.PickInt(0, 1, 10, 1000)
		}
		s.Ops = append(s.Ops, op)
	}
	return s
}

func (s *PortHist) Size() int { return len(s.Ops) }

// valid re-checks the protocol preconditions after a reduction.
func (s *PortHist) valid() bool {
	m := portModel{listener: -1}
	for i, op := range s.Ops {
		switch op.Op {
		case "openIn", "inByNumber":
			m.inOpen = true
		case "closeIn":
			if m.listener >= 0 {
				return false
			}
			m.inOpen = false
		case "relisten":
			if !m.inOpen {
				return false
			}
			m.listener = i
		case "listen", "listenTo":
			if op.Op == "listen" && !m.inOpen {
				return false
			}
			m.inOpen = true
			m.listener = i
		case "send", "sendTo":
			if len(op.Data) == 3 && op.Data[0] == 0xBF && op.Data[1] == 0x71 {
				m.listener = -1
			}
		case "stop":
			if op.Ref < 0 || op.Ref >= i || (s.Ops[op.Ref].Op != "listen" && s.Ops[op.Ref].Op != "listenTo" && s.Ops[op.Ref].Op != "relisten") {
				return false
			}
			if m.listener == op.Ref {
				m.listener = -1
			}
		}
	}
	return true
}

func (s *PortHist) Shrinks(try func(core.Scenario) bool) bool {
	// remove single ops, re-indexing stop references
	for i := len(s.Ops) - 1; i >= 0; i-- {
		c := &PortHist{}
		ok := true
		for j, op := range s.Ops {
			if j == i {
				continue
			}
			if op.Op == "stop" {
				if op.Ref == i {
					ok = false
					break
				}
				if op.Ref > i {
					op.Ref--
				}
			}
			c.Ops = append(c.Ops, op)
		}
		if ok && c.valid() && try(c) {
			return true
		}
	}
	for i, op := range s.Ops {
		if op.Op == "listenTo" {
			c := &PortHist{Ops: append([]PortOp{}, s.Ops...)}
			c.Ops[i].Op = "listen"
			if c.valid() && try(c) {
				return true
			}
		}
	}
	return false
}

func (s *PortHist) Run(env *core.Env, st *core.Stats) (vs []core.Violation) {
	st.Eval(1)
	if st != nil {
		h := core.NewHash()
		for _, op := range s.Ops {
			h = h.Str(op.Op).Int(op.Ref).Bytes(op.Data)
		}
		st.Distinct(h)
		st.Sample(s)
	}
	type cbRec struct {
		listener int
		gen      int // "relisten" ops create several listeners under one id; only the last generation is alive
		msg      []byte
		atOp     int
	}
	var calls []cbRec
	var viol *core.Violation
	var pan string
	panOp := -1
	body := func(t *testing.T) {
		cur := -1
		defer func() {
			if p := recover(); p != nil {
				pan = fmt.Sprint(p)
				panOp = cur
			}
		}()
		drv := testdrv.New("testdrv")
		drivers.Register(drv) // replaces the instance of the same name in the registry: the lookup helpers find this run's driver
		ins, _ := drv.Ins()
		outs, _ := drv.Outs()
		in, out := ins[0], outs[0]
		m := portModel{listener: -1, stopped: map[int]bool{}}
		stops := map[int]func(){}
		lastGen := map[int]int{}
		// echo: a listener answers the special control change BF 70 n (n > 0) with BF 70 n-1
		// from inside the callback, on the loopback out port
		var selfStop func()
		echo := func(b []byte) {
			if len(b) >= 3 && b[0] == 0xBF && b[1] == 0x70 && b[2] > 0 {
				out.Send([]byte{0xBF, 0x70, b[2] - 1})
			}
			if len(b) >= 3 && b[0] == 0xBF && b[1] == 0x71 && selfStop != nil {
				// stop from inside the callback, then one more message: it must not come back here
				f := selfStop
				selfStop = nil
				f()
				out.Send([]byte{0xBF, 0x72, 0x00})
			}
		}
		fail := func(clause, key, format string, a ...any) {
			if viol == nil {
				v := core.V(clause, key, format, a...)
				viol = &v
			}
		}
		for i, op := range s.Ops {
			cur = i
			if viol != nil {
				return
			}
			// the observable open state follows the model after every call
			if i > 0 && (in.IsOpen() != m.inOpen || out.IsOpen() != m.outOpen) {
				fail("idempotent-open-close", "isopen-state", "after op %d (%s): in.IsOpen()=%v out.IsOpen()=%v, the calls so far leave in=%v out=%v", i-1, s.Ops[i-1].Op, in.IsOpen(), out.IsOpen(), m.inOpen, m.outOpen)
				return
			}
			state := fmt.Sprintf("in=%v,out=%v,listening=%v", m.inOpen, m.outOpen, m.listener >= 0)
			st.ReachKey(state + "|" + op.Op)
			switch op.Op {
			case "inByNumber", "outByName":
				var p drivers.Port
				var err error
				if op.Op == "inByNumber" {
					var x drivers.In
					x, err = drivers.InByNumber(in.Number())
					p = x
					m.inOpen = true
				} else {
					var x drivers.Out
					x, err = drivers.OutByName(out.String())
					p = x
					m.outOpen = true
				}
				switch {
				case err != nil || p == nil:
					fail("lookup-helpers", op.Op, "op %d: %s failed: %v", i, op.Op, err)
				case !p.IsOpen():
					fail("lookup-helpers", op.Op+"-not-open", "op %d: %s returned a port that is not open", i, op.Op)
				case (op.Op == "inByNumber" && !in.IsOpen()) || (op.Op == "outByName" && !out.IsOpen()):
					fail("lookup-helpers", op.Op+"-other-object", "op %d: %s opened a port object that does not share its state with the driver's port", i, op.Op)
				}
			case "openIn":
				if err := in.Open(); err != nil {
					fail("idempotent-open-close", "openIn", "op %d: in.Open() = %v", i, err)
				}
				m.inOpen = true
			case "openOut":
				if m.outOpen {
					st.Probe("double-open")
				}
				if err := out.Open(); err != nil {
					fail("idempotent-open-close", "openOut", "op %d: out.Open() = %v", i, err)
				}
				m.outOpen = true
			case "closeIn":
				if !m.inOpen {
					st.Probe("double-close")
				}
				if err := in.Close(); err != nil {
					fail("idempotent-open-close", "closeIn", "op %d: in.Close() = %v", i, err)
				}
				m.inOpen = false
			case "closeOut":
				if !m.outOpen {
					st.Probe("double-close")
				}
				if err := out.Close(); err != nil {
					fail("idempotent-open-close", "closeOut", "op %d: out.Close() = %v", i, err)
				}
				m.outOpen = false
			case "relisten":
				st.Probe("relisten-burst")
				id := i
				if m.listener >= 0 {
					stops[m.listener]()
					m.stopped[m.listener] = true
					m.listener = -1
				}
				var stop func()
				for k := 0; k < op.Ms; k++ {
					if stop != nil {
						stop()
					}
					gen := k
					var err error
					stop, err = in.Listen(func(b []byte, ms int32) {
						calls = append(calls, cbRec{listener: id, gen: gen, msg: append([]byte{}, b...), atOp: cur})
						echo(b)
					}, drivers.ListenConfig{})
					if err != nil || stop == nil {
						fail("listen-works", "listen-error", "op %d: Listen #%d of a stop/listen burst failed: %v", i, k, err)
						return
					}
				}
				lastGen[id] = op.Ms - 1
				stops[id] = stop
				m.listener = id
			case "listen", "listenTo":
				id := i
				if len(m.stopped) > 0 {
					st.Probe("re-listen-after-stop")
				}
				var stop func()
				var err error
				if op.Op == "listen" {
					stop, err = in.Listen(func(b []byte, ms int32) {
						calls = append(calls, cbRec{listener: id, msg: append([]byte{}, b...), atOp: cur})
						echo(b)
					}, drivers.ListenConfig{})
				} else {
					stop, err = midi.ListenTo(in, func(msg midi.Message, ms int32) {
						calls = append(calls, cbRec{listener: id, msg: append([]byte{}, msg...), atOp: cur})
						echo(msg)
					})
					m.inOpen = true
				}
				if m.listener >= 0 {
					st.Probe("listen-while-a-listener-is-active")
					if err != nil {
						// refused: nothing changes, the refused call has no stop function to use
						stops[id] = func() {}
						break
					}
					// accepted: the new listener replaces the old one
				} else if err != nil || stop == nil {
					fail("listen-works", "listen-error", "op %d: %s failed: %v", i, op.Op, err)
					return
				}
				stops[id] = stop
				m.listener = id
				if in.IsOpen() != m.inOpen {
					fail("idempotent-open-close", "isopen", "op %d: in.IsOpen()=%v after %s", i, in.IsOpen(), op.Op)
				}
			case "stop":
				if m.stopped[op.Ref] {
					st.Probe("stop-twice")
				} else if m.listener != op.Ref {
					st.Probe("stale-stop")
				}
				if m.listener >= 0 && m.listener != op.Ref {
					st.Probe("stale-stop-while-another-listener-is-active")
				}
				stops[op.Ref]()
				if m.listener == op.Ref {
					m.listener = -1
				}
				m.stopped[op.Ref] = true
			case "sleep":
				drv.Sleep(time.Duration(op.Ms) * time.Millisecond)
			case "send", "sendTo":
				before := len(calls)
				if len(op.Data) == 0 {
					st.Probe("send-of-empty-chunk")
				}
				isSelfStop := len(op.Data) == 3 && op.Data[0] == 0xBF && op.Data[1] == 0x71 && m.listener >= 0 && m.outOpen
				stoppedNow := -1
				if isSelfStop {
					st.Probe("listener-stops-itself-inside-the-callback")
					stoppedNow = m.listener
					selfStop = stops[m.listener]
				}
				var err error
				if op.Op == "sendTo" {
					st.Probe("midi.SendTo")
					send, e := midi.SendTo(out)
					if e != nil || send == nil {
						fail("lookup-helpers", "sendTo", "op %d: midi.SendTo failed: %v", i, e)
						break
					}
					m.outOpen = true
					err = send(midi.Message(append([]byte{}, op.Data...)))
				} else {
					err = out.Send(append([]byte{}, op.Data...))
				}
				got := calls[before:]
				if isSelfStop {
					// expected: the request itself reaches the listener, the message sent after the
					// stop (BF 72 00) reaches nobody
					if err != nil {
						fail("deliver-while-listening", "error", "op %d: Send returned %v", i, err)
					}
					for _, g := range got {
						if len(g.msg) >= 2 && g.msg[0] == 0xBF && g.msg[1] == 0x72 {
							fail("no-callback-after-stop", "callback-after-stop-inside-callback", "op %d: the listener called its stop function inside the callback and sent another message afterwards: that message was delivered to listener #%d although the stop function had returned", i, g.listener)
						}
					}
					if len(got) == 0 {
						fail("deliver-while-listening", "missing", "op %d: the stop request BF 71 00 itself did not reach listener #%d", i, stoppedNow)
					}
					m.stopped[stoppedNow] = true
					m.listener = -1
					selfStop = nil
					continue
				}
				switch {
				case !m.outOpen:
					st.Probe("send-on-closed-port")
					if err != drivers.ErrPortClosed {
						fail("send-closed", "wrong-error", "op %d: Send on a closed out port returned %v, want ErrPortClosed", i, err)
					}
					if len(got) > 0 {
						fail("send-closed", "delivered", "op %d: Send on a closed out port delivered %d messages", i, len(got))
					}
				case m.listener < 0:
					st.Probe("send-without-listener")
					if err != nil {
						fail("drop-without-listener", "error", "op %d: Send with no active listener returned %v, want nil (dropped)", i, err)
					}
					if len(got) > 0 {
						key := "delivered"
						if m.stopped[got[0].listener] {
							key = "callback-after-stop"
						}
						fail("no-callback-after-stop", key, "op %d: message sent with no active listener was delivered to listener #%d (stopped=%v)", i, got[0].listener, m.stopped[got[0].listener])
					}
				default:
					if err != nil {
						fail("deliver-while-listening", "error", "op %d: Send with an active listener returned %v", i, err)
						break
					}
					// expected: exactly the messages of the chunk, to the active listener, during the call
					rx := &ref.Rx{}
					var want []ref.RxMsg
					for _, w := range rx.Feed(op.Data, 0, 0) {
						want = append(want, w)
						// the listener answers BF 70 n (n > 0) from inside the callback: the
						// answers are delivered (synchronously, on the loopback) before the
						// next message of the chunk
						if len(w.Bytes) == 3 && w.Bytes[0] == 0xBF && w.Bytes[1] == 0x70 && w.Bytes[2] > 0 {
							st.Probe("listener-answers-from-inside-the-callback")
							for d := int(w.Bytes[2]) - 1; d >= 0; d-- {
								want = append(want, ref.RxMsg{Bytes: []byte{0xBF, 0x70, byte(d)}})
							}
						}
					}
					{
						var mine []cbRec
						for _, g := range got {
							if g.listener == m.listener && g.gen != lastGen[g.listener] {
								fail("no-callback-after-stop", "callback-after-stop", "op %d: a listener of the stop/listen burst (#%d of %d) was called although its stop function has returned", i, g.gen, lastGen[g.listener]+1)
							} else if g.listener == m.listener {
								mine = append(mine, g)
							} else if m.stopped[g.listener] {
								fail("no-callback-after-stop", "callback-after-stop", "op %d: listener #%d was called although its stop function has returned", i, g.listener)
							}
						}
						got = mine
					}
					if len(got) != len(want) {
						key := "missing"
						if len(got) > len(want) {
							key = "extra"
						}
						if len(m.stopped) > 0 {
							key += "-after-relisten"
						}
						fail("deliver-while-listening", key, "op %d: sent % X to listener #%d: %d messages expected, %d delivered", i, []byte(op.Data), m.listener, len(want), len(got))
						break
					}
					for k := range want {
						g := got[k]
						if g.listener != m.listener {
							fail("deliver-while-listening", "wrong-listener", "op %d: message delivered to listener #%d, active listener is #%d", i, g.listener, m.listener)
							break
						}
						w := want[k].Bytes
						okm := bytes.Equal(g.msg, w)
						if !okm && (s.Ops[m.listener].Op == "listen" || s.Ops[m.listener].Op == "relisten") && len(g.msg) > len(w) && bytes.Equal(g.msg[:len(w)], w) {
							okm = true // raw driver callback pads 1-data-byte messages
						}
						if !okm {
							fail("deliver-while-listening", "content", "op %d: sent % X, delivered % X", i, w, g.msg)
							break
						}
					}
				}
			}
		}
	}
	if env != nil && env.T != nil {
		runBubble(env, body)
	} else {
		body(nil)
	}
	js, _ := json.Marshal(s.Ops)
	if pan != "" {
		key := "panic"
		if panOp >= 0 {
			key = "panic-in-" + s.Ops[panOp].Op
		}
		return []core.Violation{core.V("no-failure", key, "op %d (%s) panicked: %s; history %s", panOp, s.Ops[panOp].Op, pan, core.Trunc(string(js), 600))}
	}
	if viol != nil {
		viol.Detail += "; history " + core.Trunc(string(js), 600)
		return []core.Violation{*viol}
	}
	return nil
}
