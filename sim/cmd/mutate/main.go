// Command mutate enumerates and applies single-point source mutations (a mutation
// campaign is used to measure which realistic small changes the checks detect).
//
//	mutate -count <file.go>          prints the number of mutation points
//	mutate <file.go> <index>         prints the mutated source to stdout and a one-line
//	                                 description to stderr
package main

import (
	"bytes"
	"fmt"
	"go/ast"
	"go/parser"
	"go/printer"
	"go/token"
	"os"
	"strconv"
)

type point struct {
	desc  string
	apply func()
}

var swaps = map[token.Token]token.Token{
	token.EQL: token.NEQ, token.NEQ: token.EQL,
	token.LSS: token.LEQ, token.LEQ: token.LSS,
	token.GTR: token.GEQ, token.GEQ: token.GTR,
	token.LAND: token.LOR, token.LOR: token.LAND,
	token.ADD: token.SUB, token.SUB: token.ADD,
	token.SHL: token.SHR, token.SHR: token.SHL,
	token.AND: token.OR, token.OR: token.AND,
}

func collect(fset *token.FileSet, f *ast.File) []point {
	var pts []point
	pos := func(n ast.Node) string { return fset.Position(n.Pos()).String() }
	ast.Inspect(f, func(n ast.Node) bool {
		switch x := n.(type) {
		case *ast.GenDecl:
			if x.Tok == token.CONST || x.Tok == token.IMPORT || x.Tok == token.TYPE {
				return false // tables of constants are not logic
			}
		case *ast.BinaryExpr:
			if to, ok := swaps[x.Op]; ok {
				from := x.Op
				pts = append(pts, point{fmt.Sprintf("%s: %s -> %s", pos(x), from, to), func() { x.Op = to }})
				// boundary: < also to > etc. is too destructive; keep one swap per operator
			}
		case *ast.BasicLit:
			if x.Kind == token.INT {
				if v, err := strconv.ParseInt(x.Value, 0, 64); err == nil {
					old := x.Value
					pts = append(pts, point{fmt.Sprintf("%s: literal %s -> %d", pos(x), old, v+1), func() { x.Value = strconv.FormatInt(v+1, 10) }})
					if v > 0 {
						pts = append(pts, point{fmt.Sprintf("%s: literal %s -> %d", pos(x), old, v-1), func() { x.Value = strconv.FormatInt(v-1, 10) }})
					}
				}
			}
		case *ast.IncDecStmt:
			from := x.Tok
			to := token.DEC
			if from == token.DEC {
				to = token.INC
			}
			pts = append(pts, point{fmt.Sprintf("%s: %s -> %s", pos(x), from, to), func() { x.Tok = to }})
		case *ast.UnaryExpr:
			if x.Op == token.NOT {
				// drop a negation: !a -> a (by turning it into +a is invalid for bool; use parentheses)
				inner := x.X
				pts = append(pts, point{fmt.Sprintf("%s: drop negation", pos(x)), func() { x.Op = token.ILLEGAL; x.X = inner }})
			}
		case *ast.BlockStmt:
			for i, st := range x.List {
				i, st := i, st
				switch s := st.(type) {
				case *ast.ExprStmt:
					if _, ok := s.X.(*ast.CallExpr); ok {
						pts = append(pts, point{fmt.Sprintf("%s: delete call statement", pos(s)), func() { x.List[i] = &ast.EmptyStmt{} }})
					}
				case *ast.AssignStmt:
					if s.Tok != token.DEFINE {
						pts = append(pts, point{fmt.Sprintf("%s: delete assignment", pos(s)), func() { x.List[i] = &ast.EmptyStmt{} }})
					}
				case *ast.IfStmt:
					if s.Else == nil && s.Init == nil {
						pts = append(pts, point{fmt.Sprintf("%s: delete if statement", pos(s)), func() { x.List[i] = &ast.EmptyStmt{} }})
					}
				case *ast.BranchStmt:
					if s.Tok == token.CONTINUE || s.Tok == token.BREAK {
						pts = append(pts, point{fmt.Sprintf("%s: delete %s", pos(s), s.Tok), func() { x.List[i] = &ast.EmptyStmt{} }})
					}
				}
			}
		}
		return true
	})
	return pts
}

func main() {
	if len(os.Args) == 3 && os.Args[1] == "-count" {
		fset := token.NewFileSet()
		f, err := parser.ParseFile(fset, os.Args[2], nil, parser.ParseComments)
		if err != nil {
			fmt.Fprintln(os.Stderr, err)
			os.Exit(2)
		}
		fmt.Println(len(collect(fset, f)))
		return
	}
	if len(os.Args) != 3 {
		fmt.Fprintln(os.Stderr, "usage: mutate -count file.go | mutate file.go index")
		os.Exit(2)
	}
	idx, _ := strconv.Atoi(os.Args[2])
	fset := token.NewFileSet()
	f, err := parser.ParseFile(fset, os.Args[1], nil, parser.ParseComments)
	if err != nil {
		fmt.Fprintln(os.Stderr, err)
		os.Exit(2)
	}
	pts := collect(fset, f)
	if idx < 0 || idx >= len(pts) {
		fmt.Fprintln(os.Stderr, "index out of range")
		os.Exit(2)
	}
	pts[idx].apply()
	var bf bytes.Buffer
	if err := printer.Fprint(&bf, fset, f); err != nil {
		fmt.Fprintln(os.Stderr, err)
		os.Exit(2)
	}
	// a dropped negation was marked with an ILLEGAL operator: print it as plain parentheses
	out := bytes.ReplaceAll(bf.Bytes(), []byte("ILLEGAL"), []byte(""))
	os.Stdout.Write(out)
	fmt.Fprintln(os.Stderr, pts[idx].desc)
}
