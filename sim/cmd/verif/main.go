// Command verif is the driver: it rebuilds the worker binary from /repo's current tree,
// fans seeded runs out to worker processes, merges evidence, confirms every violation by
// replaying its minimised scenario in a fresh process, and sets the exit code
// (0 held / 1 violation / 2 infrastructure trouble).
package main

import (
	"crypto/sha1"
	"encoding/json"
	"fmt"
	"os"
	"os/exec"
	"path/filepath"
	"runtime"
	"strconv"
	"strings"
	"sync"
	"time"

	"verif/sim/core"
)

type partCfg struct {
	Key       string // world key in the worker (e.g. C17a)
	Pkg       string
	Crashable bool // the worker records the scenario in execution, so that a process killed by the Go runtime can be attributed
	Race      bool
	Overlay   bool
	QuickRuns int64
	ThorRuns  int64
}

type propCfg struct {
	Parts       []partCfg
	Crashable   bool
	Pkg         string // worlds | worldcat
	Race        bool
	Overlay     bool
	QuickRuns   int64
	ThorRuns    int64
	QuickCapS   int // wall-clock safety caps
	ThorCapS    int
	Level       string
	Rule        string
	Assumptions []string
	RealCode    []string
	Stubs       []string
	Exhaustive  bool // inner loop (offsets/splits per sampled file) is complete
	// RequiredProbes / RequiredReach must have fired at least once in a full run; a probe stuck
	// at zero means the workload no longer reaches what the check claims (exit 2).
	RequiredProbes []string
	RequiredReach  []string
	ReachTotal     int // size of the reach universe where one is defined (0 = none)
	ReachWhat      string
}

var root = "/verif"

// repoRoot is the tree the checks are built against: /repo, or a scratch copy named by
// VERIF_REPO (used to try changes without touching /repo; the module replacement is then
// redirected with -modfile).
var repoRoot = "/repo"

// tmpDirs are removed on every way out, including fatal2.
var tmpDirs []string

func cleanupTmp() {
	for _, d := range tmpDirs {
		os.RemoveAll(d)
	}
}

func fatal2(format string, a ...any) {
	fmt.Fprintf(os.Stderr, "verif: infrastructure error: "+format+"\n", a...)
	cleanupTmp()
	os.Exit(2)
}

func goBin() string {
	for _, c := range []string{"/opt/veriftools/go1.26.8/bin/go"} {
		if _, err := os.Stat(c); err == nil {
			return c
		}
	}
	if p, err := exec.LookPath("go1.26.8"); err == nil {
		return p
	}
	fatal2("go1.26.8 toolchain not found")
	return ""
}

func goEnv() []string {
	env := os.Environ()
	env = append(env, "GOFLAGS=-mod=mod", "GOPROXY=off", "GOSUMDB=off", "GOTOOLCHAIN=local", "CGO_ENABLED=1")
	return env
}

func main() {
	if r := os.Getenv("VERIF_ROOT"); r != "" {
		root = r
	}
	if r := os.Getenv("VERIF_REPO"); r != "" {
		repoRoot = r
	}
	if len(os.Args) < 2 {
		fmt.Fprintln(os.Stderr, "usage: verif check <ID> <quick|thorough> | verif replay <file> | verif determinism <ID> [seeds]")
		os.Exit(2)
	}
	switch os.Args[1] {
	case "check":
		if len(os.Args) < 4 {
			fatal2("usage: verif check <ID> <tier>")
		}
		os.Exit(check(os.Args[2], os.Args[3]))
	case "replay":
		if len(os.Args) < 3 {
			fatal2("usage: verif replay <file>")
		}
		os.Exit(replay(os.Args[2]))
	case "determinism":
		if len(os.Args) < 3 {
			fatal2("usage: verif determinism <ID> [seeds]")
		}
		n := int64(40)
		if len(os.Args) > 3 {
			v, _ := strconv.Atoi(os.Args[3])
			n = int64(v)
		}
		tmp := mkTmp()
		defer os.RemoveAll(tmp)
		cfg := props[os.Args[2]]
		if cfg == nil {
			fatal2("unknown property %s", os.Args[2])
		}
		ok := true
		for _, part := range partsOf(os.Args[2], cfg) {
			bin := build(tmp, part.asCfg())
			d := determinism(tmp, bin, part.Key, part.asCfg(), seedFromEnv(), n)
			fmt.Printf("determinism %s: seeds=%d processes=%d identical=%v %s\n", part.Key, d.Seeds, d.Processes, d.Identical, d.Note)
			ok = ok && d.Identical
		}
		if !ok {
			os.Exit(2)
		}
	default:
		fatal2("unknown command %s", os.Args[1])
	}
}

func seedFromEnv() uint64 {
	s := os.Getenv("VERIF_SEED")
	if s == "" {
		return 1
	}
	v, err := strconv.ParseInt(s, 10, 64)
	if err != nil {
		u, err2 := strconv.ParseUint(s, 10, 64)
		if err2 != nil {
			fatal2("VERIF_SEED=%q is not an integer", s)
		}
		return u
	}
	return uint64(v)
}

func mkTmp() string {
	d, err := os.MkdirTemp("", "verif-run-")
	if err != nil {
		fatal2("mktemp: %v", err)
	}
	tmpDirs = append(tmpDirs, d)
	return d
}

// build compiles the worker test binary against /repo's current working tree.
func build(tmp string, cfg *propCfg) string {
	bin := filepath.Join(tmp, cfg.Pkg+".test")
	args := []string{"test", "-c", "-o", bin}
	if cfg.Race {
		args = append(args, "-race")
	}
	if cfg.Overlay {
		ov, err := makeOverlay(tmp)
		if err != nil {
			fatal2("overlay generation failed (instrumenting /repo/v2/drivers/midicatdrv): %v", err)
		}
		args = append(args, "-overlay", ov)
	}
	if repoRoot != "/repo" {
		// same module file, other replacement target
		mod, err := os.ReadFile(filepath.Join(root, "sim", "go.mod"))
		if err != nil {
			fatal2("%v", err)
		}
		alt := strings.Replace(string(mod), "=> /repo/v2", "=> "+repoRoot+"/v2", 1)
		modfile := filepath.Join(tmp, "alt.mod")
		if err := os.WriteFile(modfile, []byte(alt), 0o644); err != nil {
			fatal2("%v", err)
		}
		if sum, err := os.ReadFile(filepath.Join(root, "sim", "go.sum")); err == nil {
			os.WriteFile(filepath.Join(tmp, "alt.sum"), sum, 0o644)
		}
		args = append(args, "-modfile", modfile)
	}
	args = append(args, "./"+cfg.Pkg)
	cmd := exec.Command(goBin(), args...)
	cmd.Dir = filepath.Join(root, "sim")
	cmd.Env = goEnv()
	out, err := cmd.CombinedOutput()
	if err != nil {
		fatal2("building worker from /repo's working tree failed: %v\n%s", err, out)
	}
	return bin
}

type workerOut struct {
	res      *core.Result
	stderr   string
	err      error
	code     int
	progress string
}

func runWorker(tmp, bin string, job core.Job, cfg *propCfg, timeout time.Duration, extraEnv ...string) workerOut {
	jobPath := filepath.Join(tmp, fmt.Sprintf("job-%d-%d.json", job.Worker, time.Now().UnixNano()))
	job.Out = jobPath + ".out"
	if cfg.Race || cfg.Crashable {
		job.Progress = jobPath + ".progress"
	}
	jb, _ := json.Marshal(job)
	if err := os.WriteFile(jobPath, jb, 0o644); err != nil {
		return workerOut{err: err}
	}
	cmd := exec.Command(bin, "-test.run", "^TestWorker$", "-test.timeout", "0", "-test.count", "1")
	cmd.Env = append(os.Environ(), "VERIF_JOB="+jobPath)
	if cfg.Race {
		cmd.Env = append(cmd.Env, "GORACE=halt_on_error=1 exitcode=66")
	}
	cmd.Env = append(cmd.Env, extraEnv...)
	var sb strings.Builder
	cmd.Stdout = &sb
	cmd.Stderr = &sb
	if err := cmd.Start(); err != nil {
		return workerOut{err: err}
	}
	done := make(chan error, 1)
	go func() { done <- cmd.Wait() }()
	var werr error
	select {
	case werr = <-done:
	case <-time.After(timeout):
		cmd.Process.Kill()
		<-done
		return workerOut{err: fmt.Errorf("worker %d exceeded its real-time backstop of %v", job.Worker, timeout), stderr: sb.String()}
	}
	wo := workerOut{stderr: sb.String(), progress: job.Progress}
	if werr != nil {
		if ee, ok := werr.(*exec.ExitError); ok {
			wo.code = ee.ExitCode()
		}
		wo.err = werr
	}
	raw, err := os.ReadFile(job.Out)
	if err != nil {
		if wo.err == nil {
			wo.err = err
		}
		return wo
	}
	var res core.Result
	if err := json.Unmarshal(raw, &res); err != nil {
		wo.err = err
		return wo
	}
	wo.res = &res
	return wo
}

type knownFile struct {
	Findings []struct {
		Property string `json:"property"`
		Clause   string `json:"clause"`
		Key      string `json:"key"`
		What     string `json:"what"`
	} `json:"findings"`
	Fixed []string `json:"fixed"`
}

func loadKnown() knownFile {
	var k knownFile
	raw, err := os.ReadFile(filepath.Join(root, "known_findings.json"))
	if err != nil {
		return k
	}
	if err := json.Unmarshal(raw, &k); err != nil {
		fatal2("known_findings.json: %v", err)
	}
	return k
}

func workers() int {
	n := runtime.NumCPU()
	if n > 16 {
		n = 16
	}
	if v := os.Getenv("VERIF_WORKERS"); v != "" {
		if x, err := strconv.Atoi(v); err == nil && x > 0 {
			n = x
		}
	}
	return n
}

// partsOf returns the parts of a property (a single implicit part for most).
func partsOf(id string, cfg *propCfg) []partCfg {
	if len(cfg.Parts) > 0 {
		return cfg.Parts
	}
	return []partCfg{{Key: id, Pkg: cfg.Pkg, Race: cfg.Race, Crashable: cfg.Crashable, Overlay: cfg.Overlay, QuickRuns: cfg.QuickRuns, ThorRuns: cfg.ThorRuns}}
}

func (p partCfg) asCfg() *propCfg {
	return &propCfg{Pkg: p.Pkg, Race: p.Race, Overlay: p.Overlay, Crashable: p.Crashable}
}

type partFound struct {
	core.Found
	part partCfg
	bin  string
}

func check(id, tier string) int {
	start := time.Now()
	if t := os.Getenv("VERIF_TIER"); t != "" && (t == "quick" || t == "thorough") {
		tier = t
	}
	if tier != "quick" && tier != "thorough" {
		fatal2("tier must be quick or thorough")
	}
	cfg := props[id]
	if cfg == nil {
		fatal2("unknown property %s", id)
	}
	seed := seedFromEnv()
	fmt.Printf("verif: property=%s tier=%s VERIF_SEED=%d\n", id, tier, seed)
	tmp := mkTmp()
	defer os.RemoveAll(tmp)

	capS := cfg.QuickCapS
	if tier == "thorough" {
		capS = cfg.ThorCapS
	}
	if v := os.Getenv("VERIF_CAP_S"); v != "" {
		// (for trying out the cap itself)
		if x, err := strconv.Atoi(v); err == nil && x > 0 {
			capS = x
		}
	}
	total := core.NewStats()
	fps := map[uint64]struct{}{}
	var found []partFound
	capHit := false
	var det *detResult
	nwUsed := 0
	parts := partsOf(id, cfg)
	for _, part := range parts {
		pcfg := part.asCfg()
		bin := build(tmp, pcfg)
		runs := part.QuickRuns
		if tier == "thorough" {
			runs = part.ThorRuns
		}
		if v := os.Getenv("VERIF_RUNS"); v != "" {
			if x, err := strconv.ParseInt(v, 10, 64); err == nil {
				runs = x
			}
		}
		nw := workers()
		if int64(nw) > runs {
			nw = int(runs)
		}
		nwUsed = nw
		deadline := time.Now().Add(time.Duration(capS) * time.Second)
		outs := make([]workerOut, nw)
		var wg sync.WaitGroup
		for w := 0; w < nw; w++ {
			wg.Add(1)
			go func(w int) {
				defer wg.Done()
				job := core.Job{Property: part.Key, Tier: tier, Mode: "explore", Seed: seed, From: int64(w), To: runs, Stride: int64(nw),
					Deadline: deadline.Unix(), Worker: w}
				outs[w] = runWorker(tmp, bin, job, pcfg, time.Duration(capS)*time.Second+15*time.Minute)
			}(w)
		}
		wg.Wait()
		prefix := ""
		if len(parts) > 1 {
			prefix = part.Key + ":"
		}
		for w, o := range outs {
			if part.Race && o.code == 66 {
				for _, f := range raceFound(tmp, bin, part, tier, seed, o) {
					found = append(found, partFound{Found: f, part: part, bin: bin})
				}
				if o.res == nil {
					continue
				}
			}
			if f := initCrash(o); f != nil && part.Race {
				found = append(found, partFound{Found: *f, part: part, bin: bin})
				continue
			}
			if o.res == nil && (part.Race || part.Crashable) && (strings.Contains(o.stderr, "panic: ") || strings.Contains(o.stderr, "fatal error: ")) {
				if cf := crashFound(tmp, bin, part, tier, seed, o); len(cf) > 0 {
					for _, f := range cf {
						found = append(found, partFound{Found: f, part: part, bin: bin})
					}
					continue
				}
			}
			if o.res == nil {
				fatal2("%s worker %d produced no result: %v\n%s\n...\n%s", part.Key, w, o.err, core.Trunc(o.stderr, 2500), tail(o.stderr, 1500))
			}
			if o.res.Error != "" {
				fatal2("%s worker %d: %s", part.Key, w, o.res.Error)
			}
			mergeStatsPrefixed(total, o.res.Stats, prefix)
			for _, f := range o.res.Fingerprints {
				fps[f] = struct{}{}
			}
			for _, f := range o.res.Found {
				found = append(found, partFound{Found: f, part: part, bin: bin})
			}
			capHit = capHit || o.res.CapHit
		}
		// thorough tier: determinism self-test of this world
		if tier == "thorough" || os.Getenv("VERIF_DETERMINISM") == "1" {
			d := determinism(tmp, bin, part.Key, pcfg, seed, 40)
			if !d.Identical {
				fatal2("determinism self-test failed for %s: %s", part.Key, d.Note)
			}
			if det == nil {
				det = &d
			} else {
				det.Seeds += d.Seeds
				det.Processes += d.Processes
			}
		}
	}

	// classify violations
	known := loadKnown()
	exit := 0
	seen := map[string]bool{}
	nViol := 0
	var lines []string
	for _, pf := range found {
		f := pf.Found
		if f.Clause == "harness-panic" {
			fatal2("harness failure in run %d: %s", f.Run, f.Detail)
		}
		id2 := f.Clause + "|" + f.Key
		if seen[id2] {
			continue
		}
		seen[id2] = true
		isKnown := false
		for _, k := range known.Findings {
			if k.Property == id && k.Clause == f.Clause && k.Key == f.Key {
				lines = append(lines, fmt.Sprintf("KNOWN-FINDING: property=%s %s [%s/%s]", id, k.What, f.Clause, f.Key))
				isKnown = true
				break
			}
		}
		if isKnown {
			continue
		}
		nViol++
		path := writeReplay(id, pf.part.Key, f)
		// confirm in a fresh process
		if f.Clause != "data-race" && f.Clause != "crash" {
			ro := runWorker(tmp, pf.bin, core.Job{Property: pf.part.Key, Tier: tier, Mode: "replay", Replay: path, Worker: 99}, pf.part.asCfg(), 10*time.Minute)
			if ro.res == nil || ro.res.Error != "" {
				fatal2("replay of %s failed to run: %v %s", path, ro.err, tail(ro.stderr, 2000))
			}
			ok := false
			for _, rf := range ro.res.Found {
				if rf.Clause == f.Clause && rf.Key == f.Key {
					ok = true
				}
			}
			if !ok {
				fatal2("violation %s/%s of run %d did not reproduce from its replay file %s in a fresh process (determinism bug in the machinery)", f.Clause, f.Key, f.Run, path)
			}
		}
		lines = append(lines, fmt.Sprintf("  clause=%s key=%s seed=%d run=%d minimised %d->%d: %s", f.Clause, f.Key, f.Seed, f.Run, f.FromSize, f.ToSize, core.Trunc(f.Detail, 600)))
		lines = append(lines, fmt.Sprintf("VIOLATION property=%s replay=%s", id, path))
		exit = 1
	}
	for _, l := range lines {
		fmt.Println(l)
	}

	var stuck []string
	if os.Getenv("VERIF_RUNS") == "" && !capHit {
		for _, p := range cfg.RequiredProbes {
			if total.Probes[p] == 0 {
				stuck = append(stuck, "probe:"+p)
			}
		}
		for _, p := range cfg.RequiredReach {
			if total.Reach[p] == 0 {
				stuck = append(stuck, "reach:"+p)
			}
		}
	}
	wall := time.Since(start).Seconds()
	writeEvidence(id, tier, seed, cfg, total, len(fps), nViol, wall, capHit, det, nwUsed)
	fmt.Printf("verif: property=%s tier=%s runs=%d evaluations=%d distinct=%d violations=%d wall=%.1fs cap_hit=%v\n",
		id, tier, total.Runs, total.Evaluations, len(fps), nViol, wall, capHit)
	if total.Runs == 0 && exit == 0 {
		fatal2("no runs executed")
	}
	if len(stuck) > 0 && exit == 0 {
		fatal2("rare-condition probes stuck at zero (the workload no longer reaches what this check claims): %v", stuck)
	}
	return exit
}

func mergeStatsPrefixed(dst, src *core.Stats, prefix string) {
	if src == nil {
		return
	}
	if prefix == "" {
		mergeStats(dst, src)
		return
	}
	tmp := core.NewStats()
	mergeStats(tmp, src)
	dst.Runs += tmp.Runs
	dst.Evaluations += tmp.Evaluations
	dst.SimTimeNs += tmp.SimTimeNs
	for k, v := range tmp.Faults {
		dst.Faults[prefix+k] += v
	}
	for k, v := range tmp.Regions {
		dst.Regions[prefix+k] += v
	}
	for k, v := range tmp.Probes {
		dst.Probes[prefix+k] += v
	}
	for k, v := range tmp.Reach {
		dst.Reach[prefix+k] += v
	}
	n := 0
	for _, s := range tmp.Samples {
		if n < 2 && len(dst.Samples) < 4 {
			dst.Samples = append(dst.Samples, s)
			n++
		}
	}
}

func tail(s string, n int) string {
	if len(s) <= n {
		return s
	}
	return "…" + s[len(s)-n:]
}

func mergeStats(dst, src *core.Stats) {
	if src == nil {
		return
	}
	dst.Runs += src.Runs
	dst.Evaluations += src.Evaluations
	dst.SimTimeNs += src.SimTimeNs
	for k, v := range src.Faults {
		dst.Faults[k] += v
	}
	for k, v := range src.Regions {
		dst.Regions[k] += v
	}
	for k, v := range src.Probes {
		dst.Probes[k] += v
	}
	for k, v := range src.Reach {
		dst.Reach[k] += v
	}
	for _, s := range src.Samples {
		if len(dst.Samples) < 3 {
			dst.Samples = append(dst.Samples, s)
		}
	}
}

func repoRev() string {
	out, err := exec.Command("git", "-C", repoRoot, "rev-parse", "--short", "HEAD").Output()
	if err != nil {
		return "unknown"
	}
	rev := strings.TrimSpace(string(out))
	st, _ := exec.Command("git", "-C", repoRoot, "status", "--porcelain").Output()
	if len(strings.TrimSpace(string(st))) > 0 {
		rev += "+dirty"
	}
	return rev
}

func writeReplay(id, world string, f core.Found) string {
	rf := core.ReplayFile{Property: id, World: world, Clause: f.Clause, Key: f.Key, Seed: f.Seed, Run: f.Run, Detail: f.Detail,
		Scenario: f.Scenario, From: f.FromSize, To: f.ToSize, CodeRev: repoRev()}
	b, _ := json.MarshalIndent(rf, "", " ")
	h := sha1.Sum(append([]byte(f.Clause+"|"+f.Key+"|"), f.Scenario...))
	dir := filepath.Join(root, "replays")
	os.MkdirAll(dir, 0o755)
	path := filepath.Join(dir, fmt.Sprintf("%s-%x.json", id, h[:6]))
	if err := os.WriteFile(path, b, 0o644); err != nil {
		fatal2("write replay: %v", err)
	}
	return path
}

func replay(path string) int {
	raw, err := os.ReadFile(path)
	if err != nil {
		fatal2("%v", err)
	}
	var rf core.ReplayFile
	if err := json.Unmarshal(raw, &rf); err != nil {
		fatal2("%v", err)
	}
	cfg := props[rf.Property]
	if cfg == nil {
		fatal2("unknown property %s", rf.Property)
	}
	world := rf.World
	if world == "" {
		world = rf.Property
	}
	var part *partCfg
	for _, p := range partsOf(rf.Property, cfg) {
		if p.Key == world {
			pp := p
			part = &pp
		}
	}
	if part == nil {
		fatal2("unknown world %s of property %s", world, rf.Property)
	}
	tmp := mkTmp()
	defer os.RemoveAll(tmp)
	bin := build(tmp, part.asCfg())
	abs, _ := filepath.Abs(path)
	if rf.Clause == "data-race" {
		return replayRace(tmp, bin, *part, rf, abs)
	}
	if rf.Clause == "crash" {
		ro := runWorker(tmp, bin, core.Job{Property: world, Tier: "quick", Mode: "replay", Replay: abs, Worker: 99}, part.asCfg(), 10*time.Minute)
		if ro.res == nil && (strings.Contains(ro.stderr, "panic: ") || strings.Contains(ro.stderr, "fatal error: ")) {
			fmt.Printf("  clause=crash: %s\n", core.Trunc(tail(ro.stderr, 800), 800))
			fmt.Printf("VIOLATION property=%s replay=%s\n", rf.Property, abs)
			return 1
		}
		fmt.Printf("replay of %s: no crash on this tree\n", abs)
		return 0
	}
	ro := runWorker(tmp, bin, core.Job{Property: world, Tier: "quick", Mode: "replay", Replay: abs, Worker: 99}, part.asCfg(), 10*time.Minute)
	if ro.res == nil || ro.res.Error != "" {
		errs := ""
		if ro.res != nil {
			errs = ro.res.Error
		}
		fatal2("replay failed to run: %v %s %s", ro.err, errs, tail(ro.stderr, 2000))
	}
	for _, f := range ro.res.Found {
		if f.Clause == rf.Clause && f.Key == rf.Key {
			fmt.Printf("  clause=%s key=%s: %s\n", f.Clause, f.Key, core.Trunc(f.Detail, 1000))
			fmt.Printf("VIOLATION property=%s replay=%s\n", rf.Property, abs)
			return 1
		}
	}
	for _, f := range ro.res.Found {
		fmt.Printf("  (different violation) clause=%s key=%s: %s\n", f.Clause, f.Key, core.Trunc(f.Detail, 400))
	}
	fmt.Printf("replay of %s: clause %s/%s does not fail on this tree\n", abs, rf.Clause, rf.Key)
	return 0
}

type detResult struct {
	Seeds     int64  `json:"seeds"`
	Processes int    `json:"processes"`
	Identical bool   `json:"identical"`
	Note      string `json:"note,omitempty"`
}

// determinism runs the same seeds in several processes at GOMAXPROCS 1, 4 and 16 and
// compares the per-run digests (scenario, violations, evidence counters, event log).
func determinism(tmp, bin, id string, cfg *propCfg, seed uint64, n int64) detResult {
	procs := []string{"1", "4", "16", "2", "16", "1"}
	res := make([]workerOut, len(procs))
	var wg sync.WaitGroup
	for i, p := range procs {
		wg.Add(1)
		go func(i int, p string) {
			defer wg.Done()
			job := core.Job{Property: id, Tier: "quick", Mode: "hashes", Seed: seed, From: 0, To: n, Stride: 1, Worker: 100 + i}
			res[i] = runWorker(tmp, bin, job, cfg, 20*time.Minute, "GOMAXPROCS="+p)
		}(i, p)
	}
	wg.Wait()
	d := detResult{Seeds: n, Processes: len(procs), Identical: true}
	for i := range res {
		if res[i].res == nil || res[i].res.Error != "" {
			d.Identical = false
			d.Note = fmt.Sprintf("process %d failed: %v %s", i, res[i].err, tail(res[i].stderr, 1500))
			return d
		}
		for k, v := range res[0].res.RunHashes {
			if res[i].res.RunHashes[k] != v {
				d.Identical = false
				d.Note = fmt.Sprintf("run %d differs between process 0 (GOMAXPROCS=%s) and process %d (GOMAXPROCS=%s)", k, procs[0], i, procs[i])
				return d
			}
		}
	}
	return d
}

func writeEvidence(id, tier string, seed uint64, cfg *propCfg, st *core.Stats, distinct, nViol int, wall float64, capHit bool, det *detResult, nw int) {
	cov := map[string]any{
		"evaluations":         st.Evaluations,
		"distinct_nontrivial": distinct,
		"rule":                cfg.Rule,
		"samples":             st.Samples,
		"simulated_runs":      st.Runs,
		"faults_fired":        st.Faults,
		"regions":             st.Regions,
		"probes":              st.Probes,
		"reach_keys":          st.Reach,
		"simulated_time_s":    float64(st.SimTimeNs) / 1e9,
		"real_code":           cfg.RealCode,
		"stubs":               cfg.Stubs,
		"workers":             nw,
		"wall_cap_hit":        capHit,
		"repo_rev":            repoRev(),
	}
	if wall > 0 {
		cov["runs_per_hour"] = int64(float64(st.Runs) / wall * 3600)
		cov["seeds_per_hour"] = int64(float64(st.Runs) / wall * 3600)
	}
	if cfg.ReachTotal > 0 {
		cov["reach"] = map[string]any{"covered": len(st.Reach), "total": cfg.ReachTotal, "measure": cfg.ReachWhat}
	} else {
		cov["reach"] = map[string]any{"covered": len(st.Reach), "measure": "distinct reach keys (see reach_keys)"}
	}
	if cfg.Exhaustive {
		cov["exhaustive_inner_loop"] = true
	}
	if det != nil {
		cov["determinism"] = det
	}
	if len(st.Samples) == 0 {
		cov["samples"] = []any{"(no sample recorded)"}
	}
	ev := map[string]any{
		"property_id": id,
		"tier":        tier,
		"seed":        int64(seed),
		"level":       cfg.Level,
		"coverage":    cov,
		"assumptions": cfg.Assumptions,
		"wall_s":      wall,
		"violations":  nViol,
	}
	b, _ := json.MarshalIndent(ev, "", " ")
	dir := filepath.Join(root, "evidence")
	os.MkdirAll(dir, 0o755)
	if err := os.WriteFile(filepath.Join(dir, id+".json"), b, 0o644); err != nil {
		fatal2("write evidence: %v", err)
	}
}
