package main

import (
	"encoding/json"
	"fmt"
	"os"
	"path/filepath"
	"regexp"
	"strings"
	"time"

	"verif/sim/core"
	"verif/sim/instrument"
)

func makeOverlay(tmp string) (string, error) {
	dir := filepath.Join(tmp, "overlay")
	if err := os.MkdirAll(dir, 0o755); err != nil {
		return "", err
	}
	return instrument.MakeOverlay(repoRoot+"/v2/drivers/midicatdrv", dir)
}

var reRaceFunc = regexp.MustCompile(`(?m)^\s+gitlab\.com/gomidi/midi/v2/drivers/(\S+)\(\)$`)

// raceKey names the two library functions whose accesses conflict.
func raceKey(report string) string {
	i := strings.Index(report, "WARNING: DATA RACE")
	if i < 0 {
		return "unknown"
	}
	rep := report[i:]
	blocks := strings.Split(rep, "\n\n")
	var fs []string
	for _, b := range blocks {
		if !(strings.Contains(b, "Write at") || strings.Contains(b, "Read at") || strings.Contains(b, "Previous write at") || strings.Contains(b, "Previous read at")) {
			continue
		}
		m := reRaceFunc.FindStringSubmatch(b)
		f := "non-library-frame"
		if m != nil {
			f = m[1]
		}
		fs = append(fs, f)
		if len(fs) == 2 {
			break
		}
	}
	return strings.Join(fs, " / ")
}

// inProgress reads the scenario a dead worker was executing.
func inProgress(o workerOut) (core.ReplayFile, bool) {
	var rf core.ReplayFile
	raw, err := os.ReadFile(o.progress)
	if err != nil || json.Unmarshal(raw, &rf) != nil || len(rf.Scenario) == 0 {
		return rf, false
	}
	return rf, true
}

// rerun executes exactly the scenario the dead worker was executing, in a fresh process.
func rerun(tmp, bin string, part partCfg, rf core.ReplayFile) workerOut {
	path := filepath.Join(tmp, fmt.Sprintf("inprogress-%d.json", time.Now().UnixNano()))
	b, _ := json.Marshal(rf)
	os.WriteFile(path, b, 0o644)
	return runWorker(tmp, bin, core.Job{Property: part.Key, Tier: "quick", Mode: "replay", Replay: path, Worker: 77}, part.asCfg(), 10*time.Minute)
}

// raceFound turns a worker that the race detector stopped (exit code 66) into a violation:
// the scenario that was being executed (possibly a shrink candidate) is taken from the
// worker's progress file, re-executed alone in a fresh process, and reported only if the
// race report appears again.
func raceFound(tmp, bin string, part partCfg, tier string, seed uint64, o workerOut) []core.Found {
	rf, ok := inProgress(o)
	if !ok {
		fatal2("race detector stopped a %s worker but the scenario in progress is unknown\n%s", part.Key, tail(o.stderr, 3000))
	}
	var again workerOut
	for try := 0; try < 3; try++ {
		again = rerun(tmp, bin, part, rf)
		if again.code == 66 && strings.Contains(again.stderr, "WARNING: DATA RACE") {
			break
		}
	}
	if again.code != 66 || !strings.Contains(again.stderr, "WARNING: DATA RACE") {
		fatal2("race report of %s run %d did not reproduce in a fresh process (code %d)\nfirst report:\n%s", part.Key, rf.Run, again.code, tail(o.stderr, 3000))
	}
	key := raceKey(again.stderr)
	if !strings.Contains(again.stderr, "midicatdrv") {
		fatal2("race report of %s run %d involves no frame of the instrumented package (harness race?)\n%s", part.Key, rf.Run, tail(again.stderr, 4000))
	}
	fromSize := 0
	rf, again, fromSize = shrinkDead(tmp, bin, part, rf, again, func(o workerOut) bool {
		return o.code == 66 && strings.Contains(o.stderr, "WARNING: DATA RACE") && raceKey(o.stderr) == key
	})
	toSize := scenarioSize(tmp, bin, part, rf)
	defer func() {}()
	detail := "race detector report (replayed in a fresh process): " + core.Trunc(again.stderr[strings.Index(again.stderr, "WARNING: DATA RACE"):], 1800)
	return []core.Found{{Violation: core.Violation{Clause: "data-race", Key: key, Detail: detail}, Seed: seed, Run: rf.Run, Scenario: rf.Scenario, FromSize: fromSize, ToSize: toSize}}
}

func replayRace(tmp, bin string, part partCfg, rf core.ReplayFile, abs string) int {
	ro := runWorker(tmp, bin, core.Job{Property: part.Key, Tier: "quick", Mode: "replay", Replay: abs, Worker: 99}, part.asCfg(), 10*time.Minute)
	if ro.code == 66 && strings.Contains(ro.stderr, "WARNING: DATA RACE") {
		fmt.Printf("  clause=data-race key=%s\n%s\n", raceKey(ro.stderr), core.Trunc(ro.stderr[strings.Index(ro.stderr, "WARNING: DATA RACE"):], 1500))
		fmt.Printf("VIOLATION property=%s replay=%s\n", rf.Property, abs)
		return 1
	}
	if ro.res == nil {
		fatal2("replay failed to run: %v %s", ro.err, tail(ro.stderr, 2000))
	}
	fmt.Printf("replay of %s: no data race reported on this tree\n", abs)
	return 0
}

// crashFound handles a worker that died from a panic in a goroutine the harness cannot
// recover in (a library goroutine): the scenario in progress is re-executed alone and, if it
// crashes again, reported as a violation.
func crashFound(tmp, bin string, part partCfg, tier string, seed uint64, o workerOut) []core.Found {
	rf, ok := inProgress(o)
	if !ok {
		return nil
	}
	again := rerun(tmp, bin, part, rf)
	i := strings.Index(again.stderr, "panic: ")
	if j := strings.Index(again.stderr, "fatal error: "); j >= 0 && (i < 0 || j < i) {
		i = j // e.g. "fatal error: sync: Unlock of unlocked RWMutex": not recoverable in-process
	}
	if again.res != nil || i < 0 || !strings.Contains(again.stderr, "midi/v2") {
		return nil
	}
	msg := again.stderr[i:]
	line := msg
	if j := strings.IndexByte(line, '\n'); j > 0 {
		line = line[:j]
	}
	return []core.Found{{Violation: core.Violation{Clause: "crash", Key: core.Trunc(line, 60), Detail: "the process crashed in a library goroutine (replayed in a fresh process): " + core.Trunc(msg, 1500)}, Seed: seed, Run: rf.Run, Scenario: rf.Scenario}}
}

// candidates asks a worker for the first-level shrink candidates of a scenario.
func candidates(tmp, bin string, part partCfg, rf core.ReplayFile) (map[int64]json.RawMessage, int) {
	path := filepath.Join(tmp, fmt.Sprintf("cands-%d.json", time.Now().UnixNano()))
	b, _ := json.Marshal(rf)
	os.WriteFile(path, b, 0o644)
	o := runWorker(tmp, bin, core.Job{Property: part.Key, Tier: "quick", Mode: "cands", Replay: path, Worker: 79}, &propCfg{Pkg: part.Pkg}, 5*time.Minute)
	if o.res == nil {
		return nil, 0
	}
	return o.res.Scenarios, o.res.Sizes[-1]
}

func scenarioSize(tmp, bin string, part partCfg, rf core.ReplayFile) int {
	_, n := candidates(tmp, bin, part, rf)
	return n
}

// shrinkDead minimises a scenario whose failure kills the process (so the in-process
// shrinker cannot be used): each candidate is executed in a fresh process; bounded budget.
func shrinkDead(tmp, bin string, part partCfg, rf core.ReplayFile, last workerOut, still func(workerOut) bool) (core.ReplayFile, workerOut, int) {
	deadline := time.Now().Add(90 * time.Second)
	tries := 0
	from := 0
	for time.Now().Before(deadline) && tries < 80 {
		cands, size := candidates(tmp, bin, part, rf)
		if from == 0 {
			from = size
		}
		progressed := false
		for i := int64(0); i < int64(len(cands)) && time.Now().Before(deadline) && tries < 80; i++ {
			c, ok := cands[i]
			if !ok {
				continue
			}
			tries++
			crf := rf
			crf.Scenario = c
			o := rerun(tmp, bin, part, crf)
			if still(o) {
				rf, last, progressed = crf, o, true
				break
			}
		}
		if !progressed {
			break
		}
	}
	return rf, last, from
}

// initCrash recognises a worker that died while the driver package initialised itself
// against the (valid) simulated helper: no scenario is involved.
func initCrash(o workerOut) *core.Found {
	i := strings.Index(o.stderr, "panic: ")
	if o.res != nil || i < 0 || !(strings.Contains(o.stderr, "midicatdrv.init") || strings.Contains(o.stderr, "checkMIDICAT")) {
		return nil
	}
	msg := o.stderr[i:]
	line := msg
	if j := strings.IndexByte(line, '\n'); j > 0 {
		line = line[:j]
	}
	return &core.Found{Violation: core.Violation{Clause: "crash", Key: "driver-init", Detail: "the driver package panics while initialising against a helper that reports a supported version: " + core.Trunc(msg, 1200)}, Scenario: []byte(`{"sched_seed":0}`)}
}
