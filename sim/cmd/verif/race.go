package main

import (
	"fmt"
	"os"
	"path/filepath"
	"regexp"
	"strings"
	"time"

	"verif/sim/core"
	"verif/sim/instrument"
)

func makeOverlay(tmp string) (string, error) {
	dir := filepath.Join(tmp, "overlay")
	if err := os.MkdirAll(dir, 0o755); err != nil {
		return "", err
	}
	return instrument.MakeOverlay("/repo/v2/drivers/midicatdrv", dir)
}

var reRaceFunc = regexp.MustCompile(`(?m)^\s+(gitlab\.com/gomidi/midi/v2[^\s(]*)\(`)

// raceKey names the two library functions whose accesses conflict.
func raceKey(report string) string {
	i := strings.Index(report, "WARNING: DATA RACE")
	if i < 0 {
		return "unknown"
	}
	rep := report[i:]
	blocks := strings.Split(rep, "\n\n")
	var fs []string
	for _, b := range blocks {
		if !(strings.Contains(b, "Write at") || strings.Contains(b, "Read at") || strings.Contains(b, "Previous write at") || strings.Contains(b, "Previous read at")) {
			continue
		}
		m := reRaceFunc.FindStringSubmatch(b)
		f := "non-library-frame"
		if m != nil {
			f = m[1]
			f = strings.TrimPrefix(f, "gitlab.com/gomidi/midi/v2/drivers/")
		}
		fs = append(fs, f)
		if len(fs) == 2 {
			break
		}
	}
	return strings.Join(fs, " / ")
}

// raceFound turns a worker that the race detector stopped (exit code 66) into a violation:
// the run that was in progress is read from the worker's progress file, re-executed alone
// in a fresh process, and reported only if the race report appears again.
func raceFound(tmp, bin string, part partCfg, tier string, seed uint64, o workerOut) []core.Found {
	run := int64(-1)
	if raw, err := os.ReadFile(o.progress); err == nil {
		fmt.Sscanf(strings.TrimSpace(string(raw)), "%d", &run)
	}
	if run < 0 {
		fatal2("race detector stopped a %s worker but the run in progress is unknown\n%s", part.Key, tail(o.stderr, 3000))
	}
	pcfg := part.asCfg()
	again := runWorker(tmp, bin, core.Job{Property: part.Key, Tier: tier, Mode: "explore", Seed: seed, From: run, To: run + 1, Stride: 1, Worker: 77}, pcfg, 10*time.Minute)
	if again.code != 66 {
		fatal2("race report of %s run %d did not reproduce in a fresh process (code %d)\nfirst report:\n%s", part.Key, run, again.code, tail(o.stderr, 3000))
	}
	gen := runWorker(tmp, bin, core.Job{Property: part.Key, Tier: tier, Mode: "gen", Seed: seed, From: run, To: run + 1, Stride: 1, Worker: 78}, pcfg, 10*time.Minute)
	if gen.res == nil || gen.res.Scenarios[run] == nil {
		fatal2("could not regenerate the scenario of %s run %d: %v", part.Key, run, gen.err)
	}
	if !strings.Contains(again.stderr, "WARNING: DATA RACE") {
		fatal2("%s run %d exits with the race detector's code but prints no report\n%s", part.Key, run, tail(again.stderr, 3000))
	}
	key := raceKey(again.stderr)
	if !strings.Contains(again.stderr, "midicatdrv") {
		fatal2("race report of %s run %d involves no frame of the instrumented package (harness race?)\n%s", part.Key, run, tail(again.stderr, 4000))
	}
	detail := "race detector report (replayed in a fresh process): " + core.Trunc(again.stderr[strings.Index(again.stderr, "WARNING: DATA RACE"):], 1800)
	return []core.Found{{Violation: core.Violation{Clause: "data-race", Key: key, Detail: detail}, Seed: seed, Run: run, Scenario: gen.res.Scenarios[run]}}
}

func replayRace(tmp, bin string, part partCfg, rf core.ReplayFile, abs string) int {
	ro := runWorker(tmp, bin, core.Job{Property: part.Key, Tier: "quick", Mode: "replay", Replay: abs, Worker: 99}, part.asCfg(), 10*time.Minute)
	if ro.code == 66 && strings.Contains(ro.stderr, "WARNING: DATA RACE") {
		fmt.Printf("  clause=data-race key=%s\n%s\n", raceKey(ro.stderr), core.Trunc(ro.stderr[strings.Index(ro.stderr, "WARNING: DATA RACE"):], 1500))
		fmt.Printf("VIOLATION property=%s replay=%s\n", rf.Property, abs)
		return 1
	}
	if ro.res == nil {
		fatal2("replay failed to run: %v %s", ro.err, tail(ro.stderr, 2000))
	}
	fmt.Printf("replay of %s: no data race reported on this tree\n", abs)
	return 0
}

// crashFound handles a worker that died from a panic in a goroutine the harness cannot
// recover in (a library goroutine): the run in progress is re-executed alone and, if it
// crashes again, reported as a violation.
func crashFound(tmp, bin string, part partCfg, tier string, seed uint64, o workerOut) []core.Found {
	run := int64(-1)
	if raw, err := os.ReadFile(o.progress); err == nil {
		fmt.Sscanf(strings.TrimSpace(string(raw)), "%d", &run)
	}
	if run < 0 {
		return nil
	}
	pcfg := part.asCfg()
	again := runWorker(tmp, bin, core.Job{Property: part.Key, Tier: tier, Mode: "explore", Seed: seed, From: run, To: run + 1, Stride: 1, Worker: 77}, pcfg, 10*time.Minute)
	i := strings.Index(again.stderr, "panic: ")
	if again.res != nil || i < 0 || !strings.Contains(again.stderr, "midi/v2") {
		return nil
	}
	gen := runWorker(tmp, bin, core.Job{Property: part.Key, Tier: tier, Mode: "gen", Seed: seed, From: run, To: run + 1, Stride: 1, Worker: 78}, pcfg, 10*time.Minute)
	if gen.res == nil || gen.res.Scenarios[run] == nil {
		return nil
	}
	msg := again.stderr[i:]
	line := msg
	if j := strings.IndexByte(line, '\n'); j > 0 {
		line = line[:j]
	}
	return []core.Found{{Violation: core.Violation{Clause: "crash", Key: core.Trunc(line, 60), Detail: "the process crashed in a library goroutine (replayed in a fresh process): " + core.Trunc(msg, 1500)}, Seed: seed, Run: run, Scenario: gen.res.Scenarios[run]}}
}
