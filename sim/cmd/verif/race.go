package main

import (
	"fmt"

	"verif/sim/core"
)

func makeOverlay(tmp string) (string, error) { return "", fmt.Errorf("not built yet") }

func raceFound(tmp, bin, id, tier string, cfg *propCfg, seed uint64, w, nw int, runs int64, o workerOut) []core.Found {
	return nil
}

func replayRace(tmp, bin string, cfg *propCfg, rf core.ReplayFile, abs string) int { return 2 }
