package main

import (
	"fmt"

	"verif/sim/core"
)

func makeOverlay(tmp string) (string, error) { return "", fmt.Errorf("not built yet") }

func raceFound(tmp, bin string, part partCfg, tier string, seed uint64, o workerOut) []core.Found {
	return nil
}

func replayRace(tmp, bin string, part partCfg, rf core.ReplayFile, abs string) int { return 2 }
