package instrument

import (
	"os"
	"os/exec"
	"path/filepath"
	"strings"
	"testing"
)

// The rewritten select must compile for every clause form and behave like the original.
const selectSample = `package midicatdrv

import (
	"sync"
	"time"
)

type box struct {
	sync.Mutex
	a, b chan int
	quit chan struct{}
	out  chan<- string
}

func (x *box) step(v *int, ok *bool) string {
	select {
	case n := <-x.a:
		return "a" + string(rune('0'+n))
	case *v, *ok = <-x.b:
		if !*ok {
			break
		}
		return "b"
	case x.out <- "sent":
		return "s"
	case <-x.quit:
		return "q"
	}
	return "closed-b"
}

func (x *box) loop() (res string) {
	for i := 0; i < 3; i++ {
		select {
		case n, ok := <-x.a:
			if !ok {
				continue
			}
			res += string(rune('0' + n))
		case <-x.quit:
			res += "q"
			break
		default:
			res += "d"
		}
	}
	return res
}

type gate struct {
	mu    sync.Mutex
	cond  *sync.Cond
	open  bool
	count int
	done  chan int
}

func newGate() *gate {
	g := &gate{done: make(chan int, 8)}
	g.cond = sync.NewCond(&g.mu)
	return g
}

func (g *gate) waiter(tag int, scale int64) {
	g.mu.Lock()
	for !g.open {
		g.cond.Wait()
	}
	g.count++
	g.mu.Unlock()
	g.done <- tag * int(scale)
}

func (g *gate) start() {
	go g.waiter(1, 10)
	var k int64 = 100
	go g.waiter(2, k)
	time.AfterFunc(time.Millisecond, func() {
		g.mu.Lock()
		g.open = true
		g.mu.Unlock()
		g.cond.Broadcast()
	})
}

func (x *box) terminating() int {
	select {
	case n := <-x.a:
		return n
	case n := <-x.b:
		return -n
	}
}
`

const selectMain = `package midicatdrv

import "testing"

func TestRewritten(t *testing.T) {
	out := make(chan string, 1)
	x := &box{a: make(chan int, 4), b: make(chan int, 1), quit: make(chan struct{}), out: nil}
	var v int
	var ok bool
	x.a <- 7
	if got := x.step(&v, &ok); got != "a7" {
		t.Fatalf("step: %q", got)
	}
	x.b <- 5
	if got := x.step(&v, &ok); got != "b" || v != 5 || !ok {
		t.Fatalf("step: %q %d %v", got, v, ok)
	}
	x.out = out
	if got := x.step(&v, &ok); got != "s" || <-out != "sent" {
		t.Fatalf("step: %q", got)
	}
	x.out = nil
	close(x.b)
	if got := x.step(&v, &ok); got != "closed-b" || ok {
		t.Fatalf("step: %q %v", got, ok)
	}
	x.b = nil
	// blocking: nothing ready until another goroutine acts
	go func() { x.a <- 3 }()
	if got := x.step(&v, &ok); got != "a3" {
		t.Fatalf("step: %q", got)
	}
	x.a <- 1
	if got := x.loop(); got != "1dd" {
		t.Fatalf("loop: %q", got)
	}
	close(x.a)
	if got := x.loop(); got != "" {
		t.Fatalf("loop on closed: %q", got)
	}
	g := newGate()
	g.start()
	if a, b := <-g.done, <-g.done; a+b != 210 || g.count != 2 {
		t.Fatalf("gate: %d %d %d", a, b, g.count)
	}
	x.a = make(chan int, 1)
	x.b = make(chan int, 1)
	x.b <- 4
	if got := x.terminating(); got != -4 {
		t.Fatalf("terminating: %d", got)
	}
}
`

func TestSeededSelectRewrite(t *testing.T) {
	out, n, err := Rewrite("sample.go", []byte(selectSample))
	if err != nil || n == 0 {
		t.Fatalf("rewrite: n=%d err=%v", n, err)
	}
	for _, want := range []string{"verifNewCond(", "*verifCond", "verifAfterFunc(", "verifChild1F := g.waiter", "verifChild2A1 := k"} {
		if !strings.Contains(string(out), want) {
			t.Fatalf("%q missing in the rewritten sample:\n%s", want, out)
		}
	}
	if !strings.Contains(string(out), "verifSelect(4)") || !strings.Contains(string(out), "verifSelect(2)") {
		t.Fatalf("selects were not rewritten:\n%s", out)
	}
	dir := t.TempDir()
	write := func(name, src string) {
		if err := os.WriteFile(filepath.Join(dir, name), []byte(src), 0o644); err != nil {
			t.Fatal(err)
		}
	}
	write("go.mod", "module example.com/midicatdrv\n\ngo 1.22\n")
	write("sample.go", string(out))
	write("hooks.go", HooksSource)
	write("sample_test.go", selectMain)
	cmd := exec.Command("go", "test", "-count=1", ".")
	cmd.Dir = dir
	cmd.Env = append(os.Environ(), "GOFLAGS=-mod=mod", "GOPROXY=off", "GOSUMDB=off")
	if b, err := cmd.CombinedOutput(); err != nil {
		t.Fatalf("rewritten sample fails: %v\n%s\n%s", err, b, out)
	}
}
