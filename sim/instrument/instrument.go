// Package instrument rewrites the sources of v2/drivers/midicatdrv syntactically so that
// every synchronisation point, goroutine start and child-process operation goes through
// a hook the simulator owns (DESIGN.md 2.2). Nothing is committed to /repo: the rewritten
// copies live in a temporary directory and are used through `go build -overlay`.
package instrument

import (
	"bytes"
	"encoding/json"
	"fmt"
	"go/ast"
	"go/parser"
	"go/printer"
	"go/token"
	"os"
	"path/filepath"
	"reflect"
	"strings"
)

// Files of the package that are rewritten.
var Files = []string{"in.go", "out.go", "driver.go"}

// MakeOverlay writes the instrumented copies and the hooks file to dir and returns the
// path of the overlay JSON.
func MakeOverlay(pkgDir, dir string) (string, error) {
	replace := map[string]string{}
	for _, f := range Files {
		src, err := os.ReadFile(filepath.Join(pkgDir, f))
		if err != nil {
			return "", err
		}
		out, n, err := Rewrite(f, src)
		if err != nil {
			return "", fmt.Errorf("%s: %v", f, err)
		}
		if n == 0 {
			return "", fmt.Errorf("%s: no instrumentation point found (source changed beyond recognition?)", f)
		}
		dst := filepath.Join(dir, "instr_"+f)
		if err := os.WriteFile(dst, out, 0o644); err != nil {
			return "", err
		}
		replace[filepath.Join(pkgDir, f)] = dst
	}
	hooks := filepath.Join(dir, "instr_zz_verif_hooks.go")
	if err := os.WriteFile(hooks, []byte(HooksSource), 0o644); err != nil {
		return "", err
	}
	replace[filepath.Join(pkgDir, "zz_verif_hooks.go")] = hooks
	js, _ := json.MarshalIndent(map[string]any{"Replace": replace}, "", " ")
	ov := filepath.Join(dir, "overlay.json")
	if err := os.WriteFile(ov, js, 0o644); err != nil {
		return "", err
	}
	return ov, nil
}

type rewriter struct {
	n      int
	spawnN int
	selN   int
	err    error
}

// Rewrite instruments one file. It returns the new source and the number of rewritten points.
func Rewrite(name string, src []byte) ([]byte, int, error) {
	fset := token.NewFileSet()
	f, err := parser.ParseFile(fset, name, src, parser.ParseComments)
	if err != nil {
		return nil, 0, err
	}
	rw := &rewriter{}
	for _, d := range f.Decls {
		rw.walk(reflect.ValueOf(d))
	}
	if rw.err != nil {
		return nil, 0, rw.err
	}
	// keep imports used
	var keep []string
	for _, im := range f.Imports {
		p := strings.Trim(im.Path.Value, `"`)
		switch p {
		case "runtime":
			keep = append(keep, "var _ = runtime.Gosched")
		case "io":
			keep = append(keep, "var _ io.Reader")
		case "os/exec":
			keep = append(keep, "var _ *exec.Cmd")
		case "sync":
			keep = append(keep, "var _ sync.Mutex")
		case "time":
			keep = append(keep, "var _ time.Duration")
		}
	}
	// comments are dropped: positions no longer match after the rewrite
	f.Comments = nil
	var bf bytes.Buffer
	if err := printer.Fprint(&bf, fset, f); err != nil {
		return nil, 0, err
	}
	bf.WriteString("\n// --- added by the verif instrumenter ---\n")
	for _, k := range keep {
		bf.WriteString(k + "\n")
	}
	return bf.Bytes(), rw.n, nil
}

func call(name string, args ...ast.Expr) *ast.CallExpr {
	return &ast.CallExpr{Fun: ast.NewIdent(name), Args: args}
}

func yieldStmt() ast.Stmt { return &ast.ExprStmt{X: call("verifYield")} }

func isPkgSel(e ast.Expr, pkg, name string) bool {
	s, ok := e.(*ast.SelectorExpr)
	if !ok {
		return false
	}
	id, ok := s.X.(*ast.Ident)
	return ok && id.Name == pkg && s.Sel.Name == name
}

// replaceExpr applies the expression-level rules.
func (rw *rewriter) replaceExpr(e ast.Expr) ast.Expr {
	switch x := e.(type) {
	case *ast.CallExpr:
		if isPkgSel(x.Fun, "sync", "NewCond") {
			rw.n++
			x.Fun = ast.NewIdent("verifNewCond")
			return x
		}
		if isPkgSel(x.Fun, "time", "AfterFunc") {
			rw.n++
			x.Fun = ast.NewIdent("verifAfterFunc")
			return x
		}
		if len(x.Args) == 0 {
			if isPkgSel(x.Fun, "runtime", "Gosched") {
				rw.n++
				return call("verifYield")
			}
			if isPkgSel(x.Fun, "io", "Pipe") {
				rw.n++
				return call("verifPipe")
			}
			if s, ok := x.Fun.(*ast.SelectorExpr); ok {
				switch s.Sel.Name {
				case "Lock":
					rw.n++
					return call("verifLock", &ast.SelectorExpr{X: s.X, Sel: ast.NewIdent("TryLock")})
				case "RLock":
					rw.n++
					return call("verifLock", &ast.SelectorExpr{X: s.X, Sel: ast.NewIdent("TryRLock")})
				case "Start":
					rw.n++
					return call("verifStart", s.X)
				case "Output":
					rw.n++
					return call("verifOutput", s.X)
				case "StdoutPipe":
					rw.n++
					return call("verifStdoutPipe", s.X)
				case "StdinPipe":
					rw.n++
					return call("verifStdinPipe", s.X)
				case "Kill":
					if p, ok := s.X.(*ast.SelectorExpr); ok && p.Sel.Name == "Process" {
						rw.n++
						return call("verifKill", p.X)
					}
				case "Wait":
					if p, ok := s.X.(*ast.SelectorExpr); ok && p.Sel.Name == "Process" {
						rw.n++
						return call("verifProcWait", p.X)
					}
					// Wait of an *exec.Cmd: recognised by the name of the receiver (the types are
					// not known here; a receiver of another type makes the build fail = exit 2)
					if namedCmd(s.X) {
						rw.n++
						return call("verifCmdWait", s.X)
					}
				case "Run":
					if namedCmd(s.X) {
						rw.n++
						return call("verifCmdRun", s.X)
					}
				case "CombinedOutput":
					rw.n++
					return call("verifOutput", s.X)
				}
			}
		}
	case *ast.BinaryExpr:
		if p, ok := x.X.(*ast.SelectorExpr); ok && p.Sel.Name == "Process" {
			if id, ok := x.Y.(*ast.Ident); ok && id.Name == "nil" && (x.Op == token.NEQ || x.Op == token.EQL) {
				rw.n++
				var r ast.Expr = call("verifHasProc", p.X)
				if x.Op == token.EQL {
					r = &ast.UnaryExpr{Op: token.NOT, X: r}
				}
				return r
			}
		}
	case *ast.SelectorExpr:
		if isPkgSel(x, "io", "PipeWriter") {
			rw.n++
			return ast.NewIdent("verifPipeWriter")
		}
		if isPkgSel(x, "io", "PipeReader") {
			rw.n++
			return ast.NewIdent("verifPipeReader")
		}
		if isPkgSel(x, "sync", "Cond") {
			rw.n++
			return ast.NewIdent("verifCond")
		}
	}
	return e
}

// namedCmd reports whether the expression ends in an identifier that names a command
// (cmd, o.cmd, s.inCmd, ...).
func namedCmd(e ast.Expr) bool {
	var name string
	switch x := e.(type) {
	case *ast.Ident:
		name = x.Name
	case *ast.SelectorExpr:
		name = x.Sel.Name
	}
	return strings.Contains(strings.ToLower(name), "cmd")
}

func isUnlock(e ast.Expr) bool {
	c, ok := e.(*ast.CallExpr)
	if !ok || len(c.Args) != 0 {
		return false
	}
	sel, ok := c.Fun.(*ast.SelectorExpr)
	return ok && (sel.Sel.Name == "Unlock" || sel.Sel.Name == "RUnlock")
}

func isWait(e ast.Expr) bool {
	c, ok := e.(*ast.CallExpr)
	if !ok {
		return false
	}
	if isPkgSel(c.Fun, "time", "Sleep") {
		return true
	}
	sel, ok := c.Fun.(*ast.SelectorExpr)
	return ok && len(c.Args) == 0 && sel.Sel.Name == "Wait"
}

func hasRecv(n ast.Node) bool {
	found := false
	ast.Inspect(n, func(m ast.Node) bool {
		switch u := m.(type) {
		case *ast.FuncLit:
			return false
		case *ast.UnaryExpr:
			if u.Op == token.ARROW {
				found = true
			}
		}
		return !found
	})
	return found
}

// hasAtomic reports whether the node (function literals excluded) contains an atomic
// operation: a call into sync/atomic or a method named like those of the atomic types
// (Load, Store, Swap, CompareAndSwap, Add on atomic.Int64 etc.; sync.Map's share the names).
// Lock-free code has no other point at which another goroutine could get ahead.
func hasAtomic(n ast.Node) bool {
	if n == nil || reflect.ValueOf(n).IsNil() {
		return false
	}
	found := false
	ast.Inspect(n, func(m ast.Node) bool {
		switch c := m.(type) {
		case *ast.FuncLit:
			return false
		case *ast.CallExpr:
			if sel, ok := c.Fun.(*ast.SelectorExpr); ok {
				if id, ok := sel.X.(*ast.Ident); ok && id.Name == "atomic" {
					found = true
				}
				switch sel.Sel.Name {
				case "Load", "Store", "Swap", "CompareAndSwap", "LoadOrStore", "LoadAndDelete", "CompareAndDelete":
					found = true
				}
			}
		}
		return !found
	})
	return found
}

// rewriteList applies the statement-level rules to a statement list.
func (rw *rewriter) rewriteList(list []ast.Stmt) []ast.Stmt {
	var out []ast.Stmt
	for _, st := range list {
		switch s := st.(type) {
		case *ast.SendStmt:
			rw.n++
			out = append(out, yieldStmt(), s, yieldStmt())
		case *ast.SelectStmt:
			rw.n++
			ncomm := 0
			for _, c := range s.Body.List {
				cc := c.(*ast.CommClause)
				if cc.Comm != nil { // not the default clause
					cc.Body = append([]ast.Stmt{yieldStmt()}, cc.Body...)
					ncomm++
				}
			}
			if ncomm >= 2 {
				// which of several ready cases runs is the Go runtime's random choice:
				// make it the scheduler's
				out = append(out, rw.seededSelect(s, ncomm))
				continue
			}
			out = append(out, yieldStmt(), s)
		case *ast.GoStmt:
			rw.n++
			rw.spawnN++
			id := fmt.Sprintf("verifChild%d", rw.spawnN)
			enter := &ast.ExprStmt{X: call("verifEnter", ast.NewIdent(id))}
			exit := &ast.DeferStmt{Call: call("verifExit")}
			decl := &ast.AssignStmt{Lhs: []ast.Expr{ast.NewIdent(id)}, Tok: token.DEFINE, Rhs: []ast.Expr{call("verifSpawn")}}
			fl, ok := s.Call.Fun.(*ast.FuncLit)
			if !ok {
				// go f(a, b): the function value and the arguments are evaluated here, in the
				// parent (as the language says), then a literal wrapper enters the schedule
				// and calls it. Literals and nil stay in place (an untyped constant would get
				// its default type in a temporary).
				pre := []ast.Stmt{decl}
				fn := ast.NewIdent(fmt.Sprintf("%sF", id))
				pre = append(pre, &ast.AssignStmt{Lhs: []ast.Expr{fn}, Tok: token.DEFINE, Rhs: []ast.Expr{s.Call.Fun}})
				inner := &ast.CallExpr{Fun: fn, Ellipsis: s.Call.Ellipsis}
				for i, a := range s.Call.Args {
					keep := false
					switch x := a.(type) {
					case *ast.BasicLit:
						keep = true
					case *ast.Ident:
						keep = x.Name == "nil" || x.Name == "true" || x.Name == "false"
					}
					if keep {
						inner.Args = append(inner.Args, a)
						continue
					}
					tmp := ast.NewIdent(fmt.Sprintf("%sA%d", id, i))
					pre = append(pre, &ast.AssignStmt{Lhs: []ast.Expr{tmp}, Tok: token.DEFINE, Rhs: []ast.Expr{a}})
					inner.Args = append(inner.Args, tmp)
				}
				wrapper := &ast.FuncLit{Type: &ast.FuncType{Params: &ast.FieldList{}}, Body: &ast.BlockStmt{List: []ast.Stmt{enter, exit, &ast.ExprStmt{X: inner}}}}
				pre = append(pre, &ast.GoStmt{Call: &ast.CallExpr{Fun: wrapper}})
				out = append(out, &ast.BlockStmt{List: pre})
				continue
			}
			fl.Body.List = append([]ast.Stmt{enter, exit}, fl.Body.List...)
			out = append(out, &ast.BlockStmt{List: []ast.Stmt{decl, s}})
		case *ast.DeferStmt:
			// defer mu.Unlock(): releasing the lock at the end of the function is as much a
			// point where another goroutine may get ahead as a plain Unlock statement
			if isUnlock(s.Call) {
				rw.n++
				s.Call = call("verifUnlock", s.Call.Fun)
			}
			out = append(out, s)
		case *ast.ExprStmt, *ast.AssignStmt:
			if es, ok := s.(*ast.ExprStmt); ok && isWait(es.X) {
				// woken from a wait group, a condition variable, a child process or a timer:
				// re-enter the seeded schedule before anything else happens
				rw.n++
				out = append(out, s, yieldStmt())
				continue
			}
			if es, ok := s.(*ast.ExprStmt); ok && isUnlock(es.X) {
				// releasing a lock is a point where another goroutine may get ahead
				rw.n++
				out = append(out, s, yieldStmt())
				continue
			}
			if hasRecv(s) {
				rw.n++
				out = append(out, yieldStmt(), s, yieldStmt())
			} else if hasAtomic(s) {
				rw.n++
				out = append(out, yieldStmt(), s)
			} else {
				out = append(out, s)
			}
		case *ast.IfStmt:
			if hasAtomic(s.Init) || hasAtomic(s.Cond) {
				rw.n++
				out = append(out, yieldStmt())
			}
			out = append(out, s)
		case *ast.ReturnStmt:
			if hasAtomic(s) {
				rw.n++
				out = append(out, yieldStmt())
			}
			out = append(out, s)
		default:
			out = append(out, st)
		}
	}
	return out
}

// seededSelect takes the choice among several ready clauses of a select away from the Go
// runtime. A select with n >= 2 communication clauses becomes
//
//	{
//		c0 := <channel operand 0>; c1 := ...           // evaluated once, in source order
//		v0, ok0 := verifZero(c0), false                 // one pair per receive clause
//		got := -1
//		start := verifSelect(n)                         // yields, then draws from the actor's stream
//		for try := 0; try < n && got < 0; try++ {       // probe one clause at a time, without blocking
//			switch (start + try) % n {
//			case 0: select { case v0, ok0 = <-c0: got = 0; default: }
//			case 1: select { case c1 <- x: got = 1; default: }
//			}
//		}
//		if got < 0 {                                    // only without a default clause: block on all
//			select { case v0, ok0 = <-c0: got = 0; case c1 <- x: got = 1 }
//		}
//		switch got {
//		case 0: v, ok := v0, ok0; <body 0>
//		case 1: <body 1>
//		default: <body of the default clause>
//		}
//	}
//
// Actors run one at a time, so the set of ready clauses is fixed while the probes run, and a
// blocked select is woken by the first single action of another actor. break inside a body
// leaves the switch as it left the select; continue keeps its target. A send value is
// evaluated at every attempt.
func (rw *rewriter) seededSelect(s *ast.SelectStmt, n int) ast.Stmt {
	rw.selN++
	pre := fmt.Sprintf("verifSel%d", rw.selN)
	id := func(x string) *ast.Ident { return ast.NewIdent(pre + x) }
	lit := func(i int) ast.Expr { return &ast.BasicLit{Kind: token.INT, Value: fmt.Sprint(i)} }
	define := func(e ast.Expr, names ...ast.Expr) ast.Stmt {
		return &ast.AssignStmt{Lhs: names, Tok: token.DEFINE, Rhs: []ast.Expr{e}}
	}
	setGot := func(i int) ast.Stmt {
		return &ast.AssignStmt{Lhs: []ast.Expr{id("Got")}, Tok: token.ASSIGN, Rhs: []ast.Expr{lit(i)}}
	}
	var list []ast.Stmt
	var probes, blocking, bodies []ast.Stmt
	var def *ast.CommClause
	i := 0
	for _, c := range s.Body.List {
		cc := c.(*ast.CommClause)
		if cc.Comm == nil {
			def = cc
			continue
		}
		cv := id(fmt.Sprintf("C%d", i))
		var comm ast.Stmt
		var head []ast.Stmt
		switch st := cc.Comm.(type) {
		case *ast.SendStmt:
			list = append(list, define(st.Chan, cv))
			comm = &ast.SendStmt{Chan: cv, Value: st.Value}
		default:
			var u *ast.UnaryExpr
			var as *ast.AssignStmt
			switch st := cc.Comm.(type) {
			case *ast.ExprStmt:
				u = recvOf(st.X)
			case *ast.AssignStmt:
				if len(st.Rhs) == 1 {
					u = recvOf(st.Rhs[0])
					as = st
				}
			}
			if u == nil {
				rw.err = fmt.Errorf("select clause of a form the instrumenter does not know")
				return s
			}
			vv, ok := id(fmt.Sprintf("V%d", i)), id(fmt.Sprintf("Ok%d", i))
			list = append(list, define(u.X, cv))
			list = append(list, &ast.AssignStmt{Lhs: []ast.Expr{vv, ok}, Tok: token.DEFINE,
				Rhs: []ast.Expr{call("verifZero", cv), ast.NewIdent("false")}})
			comm = &ast.AssignStmt{Lhs: []ast.Expr{vv, ok}, Tok: token.ASSIGN,
				Rhs: []ast.Expr{&ast.UnaryExpr{Op: token.ARROW, X: cv}}}
			head = append(head, &ast.AssignStmt{Lhs: []ast.Expr{ast.NewIdent("_"), ast.NewIdent("_")}, Tok: token.ASSIGN, Rhs: []ast.Expr{vv, ok}})
			if as != nil {
				rhs := []ast.Expr{vv, ok}[:len(as.Lhs)]
				head = append(head, &ast.AssignStmt{Lhs: as.Lhs, Tok: as.Tok, Rhs: rhs})
			}
		}
		probes = append(probes, &ast.CaseClause{List: []ast.Expr{lit(i)}, Body: []ast.Stmt{
			&ast.SelectStmt{Body: &ast.BlockStmt{List: []ast.Stmt{
				&ast.CommClause{Comm: comm, Body: []ast.Stmt{setGot(i)}},
				&ast.CommClause{},
			}}}}})
		blocking = append(blocking, &ast.CommClause{Comm: comm, Body: []ast.Stmt{setGot(i)}})
		bodies = append(bodies, &ast.CaseClause{List: []ast.Expr{lit(i)}, Body: append(head, cc.Body...)})
		i++
	}
	list = append(list,
		define(lit(-1), id("Got")),
		define(call("verifSelect", lit(n)), id("Start")),
		&ast.ForStmt{
			Init: define(lit(0), id("Try")),
			Cond: &ast.BinaryExpr{
				X:  &ast.BinaryExpr{X: id("Try"), Op: token.LSS, Y: lit(n)},
				Op: token.LAND,
				Y:  &ast.BinaryExpr{X: id("Got"), Op: token.LSS, Y: lit(0)}},
			Post: &ast.IncDecStmt{X: id("Try"), Tok: token.INC},
			Body: &ast.BlockStmt{List: []ast.Stmt{&ast.SwitchStmt{
				Tag: &ast.BinaryExpr{
					X:  &ast.ParenExpr{X: &ast.BinaryExpr{X: id("Start"), Op: token.ADD, Y: id("Try")}},
					Op: token.REM, Y: lit(n)},
				Body: &ast.BlockStmt{List: probes}}}},
		})
	if def == nil {
		list = append(list, &ast.IfStmt{
			Cond: &ast.BinaryExpr{X: id("Got"), Op: token.LSS, Y: lit(0)},
			Body: &ast.BlockStmt{List: []ast.Stmt{&ast.SelectStmt{Body: &ast.BlockStmt{List: blocking}}}}})
		// keeps the statement terminating where the select was (and cannot be reached)
		bodies = append(bodies, &ast.CaseClause{Body: []ast.Stmt{&ast.ExprStmt{X: call("panic", &ast.BasicLit{Kind: token.STRING, Value: `"verif: select without a chosen clause"`})}}})
	} else {
		bodies = append(bodies, &ast.CaseClause{Body: def.Body})
	}
	list = append(list, &ast.SwitchStmt{Tag: id("Got"), Body: &ast.BlockStmt{List: bodies}})
	return &ast.BlockStmt{List: list}
}

func recvOf(e ast.Expr) *ast.UnaryExpr {
	for {
		if p, ok := e.(*ast.ParenExpr); ok {
			e = p.X
			continue
		}
		break
	}
	if u, ok := e.(*ast.UnaryExpr); ok && u.Op == token.ARROW {
		return u
	}
	return nil
}

var (
	exprType = reflect.TypeOf((*ast.Expr)(nil)).Elem()
	stmtList = reflect.TypeOf([]ast.Stmt(nil))
)

// walk visits every node below v, replacing expressions and expanding statement lists.
// Children are processed before their parents' lists are expanded.
func (rw *rewriter) walk(v reflect.Value) {
	switch v.Kind() {
	case reflect.Interface:
		if v.IsNil() {
			return
		}
		rw.walk(v.Elem())
	case reflect.Ptr:
		if v.IsNil() {
			return
		}
		if _, isObj := v.Interface().(*ast.Object); isObj {
			return
		}
		if _, isScope := v.Interface().(*ast.Scope); isScope {
			return
		}
		rw.walk(v.Elem())
	case reflect.Struct:
		for i := 0; i < v.NumField(); i++ {
			f := v.Field(i)
			if !f.CanSet() {
				continue
			}
			rw.walkField(f)
		}
	case reflect.Slice:
		for i := 0; i < v.Len(); i++ {
			rw.walkField(v.Index(i))
		}
	}
}

func (rw *rewriter) walkField(f reflect.Value) {
	// first recurse
	rw.walk(f)
	// then rewrite this field itself
	if f.Type() == exprType && !f.IsNil() {
		e := f.Interface().(ast.Expr)
		if ne := rw.replaceExpr(e); ne != e {
			f.Set(reflect.ValueOf(ne))
		}
		return
	}
	if f.Type() == stmtList && f.Len() > 0 {
		list := f.Interface().([]ast.Stmt)
		f.Set(reflect.ValueOf(rw.rewriteList(list)))
	}
}

// HooksSource is the file added to package midicatdrv through the overlay.
const HooksSource = `package midicatdrv

import (
	"io"
	"os"
	"os/exec"
	"runtime"
	"sync"
	"sync/atomic"
	"time"
)

// VerifHooks are the seams the simulator owns. All fields have pass-through defaults so
// that package initialisation works before the harness installs its own.
type VerifHooks struct {
	Yield   func()
	Select  func(n int) int
	Spawn   func() uint64
	Enter   func(uint64)
	Exit    func()
	Start   func(*exec.Cmd) error
	Output  func(*exec.Cmd) ([]byte, error)
	Kill    func(*exec.Cmd) error
	HasProc func(*exec.Cmd) bool
	// ProcWait blocks until the (simulated) process has ended.
	ProcWait func(*exec.Cmd)
	// CmdWait is (*exec.Cmd).Wait.
	CmdWait func(*exec.Cmd) error
}

var verifDefaults = VerifHooks{
	Yield:   func() { runtime.Gosched() },
	Select:  func(int) int { runtime.Gosched(); return 0 },
	Spawn:   func() uint64 { return 0 },
	Enter:   func(uint64) {},
	Exit:    func() {},
	Start: func(c *exec.Cmd) error {
		// (package initialisation asks the helper for its version, maybe by hand)
		if c.Stdout != nil {
			c.Stdout.Write([]byte("0.6.9"))
		}
		return nil
	},
	Output:  func(c *exec.Cmd) ([]byte, error) { return []byte("0.6.9"), nil },
	Kill:    func(*exec.Cmd) error { return nil },
	HasProc: func(*exec.Cmd) bool { return true },
	ProcWait: func(*exec.Cmd) {},
	CmdWait:  func(*exec.Cmd) error { return nil },
}

// The hooks are read through an atomic pointer: goroutines that the package may have started
// while it initialised (with the defaults) must not race with the installation.
var verifHP atomic.Pointer[VerifHooks]

func verifHk() *VerifHooks {
	if h := verifHP.Load(); h != nil {
		return h
	}
	return &verifDefaults
}

// VerifInstall installs the simulator's hooks. Must be called before any port is used.
func VerifInstall(h VerifHooks) { verifHP.Store(&h) }

func verifYield()                              { verifHk().Yield() }
func verifSelect(n int) int                    { return verifHk().Select(n) }
func verifSpawn() uint64                       { return verifHk().Spawn() }

// verifZero gives a variable of a channel's element type to receive into.
func verifZero[T any](c <-chan T) (z T) { return }

func verifEnter(id uint64)                     { verifHk().Enter(id) }
func verifExit()                               { verifHk().Exit() }
func verifStart(c *exec.Cmd) error             { return verifHk().Start(c) }
func verifOutput(c *exec.Cmd) ([]byte, error)  { return verifHk().Output(c) }
func verifKill(c *exec.Cmd) error              { return verifHk().Kill(c) }
func verifHasProc(c *exec.Cmd) bool            { return verifHk().HasProc(c) }

// verifCmdWait / verifCmdRun replace cmd.Wait() / cmd.Run().
func verifCmdWait(c *exec.Cmd) error { return verifHk().CmdWait(c) }

func verifCmdRun(c *exec.Cmd) error {
	if err := verifHk().Start(c); err != nil {
		return err
	}
	return verifHk().CmdWait(c)
}

// verifProcWait replaces cmd.Process.Wait().
func verifProcWait(c *exec.Cmd) (*os.ProcessState, error) {
	verifHk().ProcWait(c)
	return nil, nil
}

// verifUnlock is what a deferred Unlock/RUnlock becomes: unlock, then yield.
func verifUnlock(unlock func()) {
	unlock()
	verifHk().Yield()
}

// verifLock replaces Lock/RLock: a goroutine waiting for a mutex must be durably blocked
// for simulated time to advance, which a real Lock is not. The mutex stays the real one
// (same happens-before edges); a self-deadlock becomes a detectable livelock.
func verifLock(try func() bool) {
	verifHk().Yield()
	for !try() {
		verifHk().Yield()
	}
}

// verifStdoutPipe / verifStdinPipe replace (*exec.Cmd).StdoutPipe / StdinPipe: a read from a
// real pipe is no durable block, so the (simulated) helper is connected through verifPipe.
func verifStdoutPipe(c *exec.Cmd) (io.ReadCloser, error) {
	r, w := verifPipe()
	c.Stdout = VerifOwnedStdout{w}
	return r, nil
}

// VerifOwnedStdout marks a stdout that belongs to the child process alone: it is closed
// (the reader sees EOF) when the simulated process ends.
type VerifOwnedStdout struct{ io.WriteCloser }

func verifStdinPipe(c *exec.Cmd) (io.WriteCloser, error) {
	r, w := verifPipe()
	c.Stdin = VerifOwnedStdin{r}
	return w, nil
}

// VerifOwnedStdin marks a stdin that is the process's own end of a pipe (StdinPipe): when
// the simulated process ends it is closed, and writers get an error (EPIPE in real life).
type VerifOwnedStdin struct{ io.ReadCloser }

// verifCond replaces sync.Cond: Wait of the real one re-acquires its Locker with a plain
// Lock, on which a goroutine is not durably blocked (the fake clock would stand still while
// the holder sleeps in a yield). Same semantics, same happens-before (Signal before the
// return of the Wait it wakes), waiters parked on channels, the Locker taken through TryLock.
type verifCond struct {
	L  sync.Locker
	mu sync.Mutex // guards q; never held across a yield
	q  []chan struct{}
}

func verifNewCond(l sync.Locker) *verifCond { return &verifCond{L: l} }

func (c *verifCond) Wait() {
	ch := make(chan struct{})
	c.mu.Lock()
	c.q = append(c.q, ch)
	c.mu.Unlock()
	c.L.Unlock()
	<-ch
	verifHk().Yield() // woken: re-enter the seeded schedule
	if t, ok := c.L.(interface{ TryLock() bool }); ok {
		verifLock(t.TryLock)
	} else {
		c.L.Lock()
	}
}

func (c *verifCond) Signal() {
	var ch chan struct{}
	c.mu.Lock()
	if len(c.q) > 0 {
		ch, c.q = c.q[0], c.q[1:]
	}
	c.mu.Unlock()
	if ch != nil {
		close(ch)
	}
}

func (c *verifCond) Broadcast() {
	c.mu.Lock()
	q := c.q
	c.q = nil
	c.mu.Unlock()
	for _, ch := range q {
		close(ch)
	}
}

// verifAfterFunc replaces time.AfterFunc: the function runs in a goroutine of its own, which
// must be an actor of the schedule (its identity is allocated here, in the parent).
func verifAfterFunc(d time.Duration, f func()) *time.Timer {
	id := verifSpawn()
	return time.AfterFunc(d, func() {
		verifEnter(id)
		defer verifExit()
		f()
	})
}

// verifPipe replaces io.Pipe: same semantics (synchronous, each Write blocks until it has
// been consumed, writes are serialised), but built from channels only, so that every
// blocked party is durably blocked inside a synctest bubble (io.Pipe serialises writers
// with a sync.Mutex, which is not).
type verifPipeCore struct {
	wrTok chan struct{} // write lock
	data  chan []byte
	ack   chan int
	done  chan struct{} // closed by either side
	rerr  error
	werr  error
	once  chan struct{}
}

type verifPipeReader struct{ p *verifPipeCore }
type verifPipeWriter struct{ p *verifPipeCore }

func verifPipe() (*verifPipeReader, *verifPipeWriter) {
	p := &verifPipeCore{wrTok: make(chan struct{}, 1), data: make(chan []byte), ack: make(chan int), done: make(chan struct{}), once: make(chan struct{}, 1)}
	p.wrTok <- struct{}{}
	p.once <- struct{}{}
	return &verifPipeReader{p}, &verifPipeWriter{p}
}

func (p *verifPipeCore) closeWith(rerr, werr error) {
	select {
	case <-p.once:
		p.rerr, p.werr = rerr, werr
		close(p.done)
	default:
	}
}

func (r *verifPipeReader) Read(b []byte) (int, error) {
	select {
	case <-r.p.done:
		return 0, r.p.rerr
	default:
	}
	select {
	case d := <-r.p.data:
		// the writer stays blocked until the ack: this side runs alone
		n := copy(b, d)
		r.p.ack <- n
		return n, nil
	case <-r.p.done:
		verifHk().Yield() // woken by a close: re-enter the seeded schedule
		return 0, r.p.rerr
	}
}

// Close of the read side: writers get io.ErrClosedPipe.
func (r *verifPipeReader) Close() error {
	r.p.closeWith(io.ErrClosedPipe, io.ErrClosedPipe)
	return nil
}

// CloseWithError of the read side: writers get err (io.ErrClosedPipe for nil).
func (r *verifPipeReader) CloseWithError(err error) error {
	if err == nil {
		err = io.ErrClosedPipe
	}
	r.p.closeWith(io.ErrClosedPipe, err)
	return nil
}

// CloseWithError of the write side: readers get err (io.EOF for nil).
func (w *verifPipeWriter) CloseWithError(err error) error {
	if err == nil {
		err = io.EOF
	}
	w.p.closeWith(err, io.ErrClosedPipe)
	return nil
}

func (w *verifPipeWriter) Write(b []byte) (n int, err error) {
	verifHk().Yield()
	select {
	case <-w.p.done:
		return 0, w.p.werr
	default:
	}
	select {
	case <-w.p.done:
		verifHk().Yield()
		return 0, w.p.werr
	case <-w.p.wrTok:
	}
	for once := true; once || len(b) > 0; once = false {
		select {
		case w.p.data <- b:
			k := <-w.p.ack
			b = b[k:]
			n += k
		case <-w.p.done:
			w.p.wrTok <- struct{}{}
			verifHk().Yield()
			return n, w.p.werr
		}
	}
	w.p.wrTok <- struct{}{}
	// woken by the reader's ack: re-enter the seeded schedule before touching anything else
	verifHk().Yield()
	return n, nil
}

// Close of the write side: readers get io.EOF.
func (w *verifPipeWriter) Close() error {
	w.p.closeWith(io.EOF, io.ErrClosedPipe)
	return nil
}
`
