// Package instrument rewrites the sources of v2/drivers/midicatdrv syntactically so that
// every synchronisation point, goroutine start and child-process operation goes through
// a hook the simulator owns (DESIGN.md 2.2). Nothing is committed to /repo: the rewritten
// copies live in a temporary directory and are used through `go build -overlay`.
package instrument

import (
	"bytes"
	"encoding/json"
	"fmt"
	"go/ast"
	"go/parser"
	"go/printer"
	"go/token"
	"os"
	"path/filepath"
	"reflect"
	"strings"
)

// Files of the package that are rewritten.
var Files = []string{"in.go", "out.go", "driver.go"}

// MakeOverlay writes the instrumented copies and the hooks file to dir and returns the
// path of the overlay JSON.
func MakeOverlay(pkgDir, dir string) (string, error) {
	replace := map[string]string{}
	for _, f := range Files {
		src, err := os.ReadFile(filepath.Join(pkgDir, f))
		if err != nil {
			return "", err
		}
		out, n, err := Rewrite(f, src)
		if err != nil {
			return "", fmt.Errorf("%s: %v", f, err)
		}
		if n == 0 {
			return "", fmt.Errorf("%s: no instrumentation point found (source changed beyond recognition?)", f)
		}
		dst := filepath.Join(dir, "instr_"+f)
		if err := os.WriteFile(dst, out, 0o644); err != nil {
			return "", err
		}
		replace[filepath.Join(pkgDir, f)] = dst
	}
	hooks := filepath.Join(dir, "instr_zz_verif_hooks.go")
	if err := os.WriteFile(hooks, []byte(HooksSource), 0o644); err != nil {
		return "", err
	}
	replace[filepath.Join(pkgDir, "zz_verif_hooks.go")] = hooks
	js, _ := json.MarshalIndent(map[string]any{"Replace": replace}, "", " ")
	ov := filepath.Join(dir, "overlay.json")
	if err := os.WriteFile(ov, js, 0o644); err != nil {
		return "", err
	}
	return ov, nil
}

type rewriter struct {
	n      int
	spawnN int
	err    error
}

// Rewrite instruments one file. It returns the new source and the number of rewritten points.
func Rewrite(name string, src []byte) ([]byte, int, error) {
	fset := token.NewFileSet()
	f, err := parser.ParseFile(fset, name, src, parser.ParseComments)
	if err != nil {
		return nil, 0, err
	}
	rw := &rewriter{}
	for _, d := range f.Decls {
		rw.walk(reflect.ValueOf(d))
	}
	if rw.err != nil {
		return nil, 0, rw.err
	}
	// keep imports used
	var keep []string
	for _, im := range f.Imports {
		p := strings.Trim(im.Path.Value, `"`)
		switch p {
		case "runtime":
			keep = append(keep, "var _ = runtime.Gosched")
		case "io":
			keep = append(keep, "var _ io.Reader")
		case "os/exec":
			keep = append(keep, "var _ *exec.Cmd")
		case "sync":
			keep = append(keep, "var _ sync.Mutex")
		}
	}
	// comments are dropped: positions no longer match after the rewrite
	f.Comments = nil
	var bf bytes.Buffer
	if err := printer.Fprint(&bf, fset, f); err != nil {
		return nil, 0, err
	}
	bf.WriteString("\n// --- added by the verif instrumenter ---\n")
	for _, k := range keep {
		bf.WriteString(k + "\n")
	}
	return bf.Bytes(), rw.n, nil
}

func call(name string, args ...ast.Expr) *ast.CallExpr {
	return &ast.CallExpr{Fun: ast.NewIdent(name), Args: args}
}

func yieldStmt() ast.Stmt { return &ast.ExprStmt{X: call("verifYield")} }

func isPkgSel(e ast.Expr, pkg, name string) bool {
	s, ok := e.(*ast.SelectorExpr)
	if !ok {
		return false
	}
	id, ok := s.X.(*ast.Ident)
	return ok && id.Name == pkg && s.Sel.Name == name
}

// replaceExpr applies the expression-level rules.
func (rw *rewriter) replaceExpr(e ast.Expr) ast.Expr {
	switch x := e.(type) {
	case *ast.CallExpr:
		if len(x.Args) == 0 {
			if isPkgSel(x.Fun, "runtime", "Gosched") {
				rw.n++
				return call("verifYield")
			}
			if isPkgSel(x.Fun, "io", "Pipe") {
				rw.n++
				return call("verifPipe")
			}
			if s, ok := x.Fun.(*ast.SelectorExpr); ok {
				switch s.Sel.Name {
				case "Lock":
					rw.n++
					return call("verifLock", &ast.SelectorExpr{X: s.X, Sel: ast.NewIdent("TryLock")})
				case "RLock":
					rw.n++
					return call("verifLock", &ast.SelectorExpr{X: s.X, Sel: ast.NewIdent("TryRLock")})
				case "Start":
					rw.n++
					return call("verifStart", s.X)
				case "Output":
					rw.n++
					return call("verifOutput", s.X)
				case "Kill":
					if p, ok := s.X.(*ast.SelectorExpr); ok && p.Sel.Name == "Process" {
						rw.n++
						return call("verifKill", p.X)
					}
				}
			}
		}
	case *ast.BinaryExpr:
		if p, ok := x.X.(*ast.SelectorExpr); ok && p.Sel.Name == "Process" {
			if id, ok := x.Y.(*ast.Ident); ok && id.Name == "nil" && (x.Op == token.NEQ || x.Op == token.EQL) {
				rw.n++
				var r ast.Expr = call("verifHasProc", p.X)
				if x.Op == token.EQL {
					r = &ast.UnaryExpr{Op: token.NOT, X: r}
				}
				return r
			}
		}
	case *ast.SelectorExpr:
		if isPkgSel(x, "io", "PipeWriter") {
			rw.n++
			return ast.NewIdent("verifPipeWriter")
		}
		if isPkgSel(x, "io", "PipeReader") {
			rw.n++
			return ast.NewIdent("verifPipeReader")
		}
	}
	return e
}

func isUnlock(e ast.Expr) bool {
	c, ok := e.(*ast.CallExpr)
	if !ok || len(c.Args) != 0 {
		return false
	}
	sel, ok := c.Fun.(*ast.SelectorExpr)
	return ok && (sel.Sel.Name == "Unlock" || sel.Sel.Name == "RUnlock")
}

func hasRecv(n ast.Node) bool {
	found := false
	ast.Inspect(n, func(m ast.Node) bool {
		switch u := m.(type) {
		case *ast.FuncLit:
			return false
		case *ast.UnaryExpr:
			if u.Op == token.ARROW {
				found = true
			}
		}
		return !found
	})
	return found
}

// rewriteList applies the statement-level rules to a statement list.
func (rw *rewriter) rewriteList(list []ast.Stmt) []ast.Stmt {
	var out []ast.Stmt
	for _, st := range list {
		switch s := st.(type) {
		case *ast.SendStmt:
			rw.n++
			out = append(out, yieldStmt(), s, yieldStmt())
		case *ast.SelectStmt:
			rw.n++
			for _, c := range s.Body.List {
				cc := c.(*ast.CommClause)
				if cc.Comm != nil { // not the default clause
					cc.Body = append([]ast.Stmt{yieldStmt()}, cc.Body...)
				}
			}
			out = append(out, yieldStmt(), s)
		case *ast.GoStmt:
			rw.n++
			rw.spawnN++
			id := fmt.Sprintf("verifChild%d", rw.spawnN)
			fl, ok := s.Call.Fun.(*ast.FuncLit)
			if !ok {
				rw.err = fmt.Errorf("go statement with a non-literal function is not supported by the instrumenter")
				out = append(out, s)
				continue
			}
			enter := &ast.ExprStmt{X: call("verifEnter", ast.NewIdent(id))}
			exit := &ast.DeferStmt{Call: call("verifExit")}
			fl.Body.List = append([]ast.Stmt{enter, exit}, fl.Body.List...)
			decl := &ast.AssignStmt{Lhs: []ast.Expr{ast.NewIdent(id)}, Tok: token.DEFINE, Rhs: []ast.Expr{call("verifSpawn")}}
			out = append(out, &ast.BlockStmt{List: []ast.Stmt{decl, s}})
		case *ast.ExprStmt, *ast.AssignStmt:
			if es, ok := s.(*ast.ExprStmt); ok && isUnlock(es.X) {
				// releasing a lock is a point where another goroutine may get ahead
				rw.n++
				out = append(out, s, yieldStmt())
				continue
			}
			if hasRecv(s) {
				rw.n++
				out = append(out, yieldStmt(), s, yieldStmt())
			} else {
				out = append(out, s)
			}
		default:
			out = append(out, st)
		}
	}
	return out
}

var (
	exprType = reflect.TypeOf((*ast.Expr)(nil)).Elem()
	stmtList = reflect.TypeOf([]ast.Stmt(nil))
)

// walk visits every node below v, replacing expressions and expanding statement lists.
// Children are processed before their parents' lists are expanded.
func (rw *rewriter) walk(v reflect.Value) {
	switch v.Kind() {
	case reflect.Interface:
		if v.IsNil() {
			return
		}
		rw.walk(v.Elem())
	case reflect.Ptr:
		if v.IsNil() {
			return
		}
		if _, isObj := v.Interface().(*ast.Object); isObj {
			return
		}
		if _, isScope := v.Interface().(*ast.Scope); isScope {
			return
		}
		rw.walk(v.Elem())
	case reflect.Struct:
		for i := 0; i < v.NumField(); i++ {
			f := v.Field(i)
			if !f.CanSet() {
				continue
			}
			rw.walkField(f)
		}
	case reflect.Slice:
		for i := 0; i < v.Len(); i++ {
			rw.walkField(v.Index(i))
		}
	}
}

func (rw *rewriter) walkField(f reflect.Value) {
	// first recurse
	rw.walk(f)
	// then rewrite this field itself
	if f.Type() == exprType && !f.IsNil() {
		e := f.Interface().(ast.Expr)
		if ne := rw.replaceExpr(e); ne != e {
			f.Set(reflect.ValueOf(ne))
		}
		return
	}
	if f.Type() == stmtList && f.Len() > 0 {
		list := f.Interface().([]ast.Stmt)
		f.Set(reflect.ValueOf(rw.rewriteList(list)))
	}
}

// HooksSource is the file added to package midicatdrv through the overlay.
const HooksSource = `package midicatdrv

import (
	"io"
	"os/exec"
	"runtime"
)

// VerifHooks are the seams the simulator owns. All fields have pass-through defaults so
// that package initialisation works before the harness installs its own.
type VerifHooks struct {
	Yield   func()
	Spawn   func() uint64
	Enter   func(uint64)
	Exit    func()
	Start   func(*exec.Cmd) error
	Output  func(*exec.Cmd) ([]byte, error)
	Kill    func(*exec.Cmd) error
	HasProc func(*exec.Cmd) bool
}

var verifH = VerifHooks{
	Yield:   func() { runtime.Gosched() },
	Spawn:   func() uint64 { return 0 },
	Enter:   func(uint64) {},
	Exit:    func() {},
	Start:   func(*exec.Cmd) error { return nil },
	Output:  func(c *exec.Cmd) ([]byte, error) { return []byte("0.6.9"), nil },
	Kill:    func(*exec.Cmd) error { return nil },
	HasProc: func(*exec.Cmd) bool { return true },
}

// VerifInstall installs the simulator's hooks. Must be called before any port is used.
func VerifInstall(h VerifHooks) { verifH = h }

func verifYield()                              { verifH.Yield() }
func verifSpawn() uint64                       { return verifH.Spawn() }
func verifEnter(id uint64)                     { verifH.Enter(id) }
func verifExit()                               { verifH.Exit() }
func verifStart(c *exec.Cmd) error             { return verifH.Start(c) }
func verifOutput(c *exec.Cmd) ([]byte, error)  { return verifH.Output(c) }
func verifKill(c *exec.Cmd) error              { return verifH.Kill(c) }
func verifHasProc(c *exec.Cmd) bool            { return verifH.HasProc(c) }

// verifLock replaces Lock/RLock: a goroutine waiting for a mutex must be durably blocked
// for simulated time to advance, which a real Lock is not. The mutex stays the real one
// (same happens-before edges); a self-deadlock becomes a detectable livelock.
func verifLock(try func() bool) {
	verifH.Yield()
	for !try() {
		verifH.Yield()
	}
}

// verifPipe replaces io.Pipe: same semantics (synchronous, each Write blocks until it has
// been consumed, writes are serialised), but built from channels only, so that every
// blocked party is durably blocked inside a synctest bubble (io.Pipe serialises writers
// with a sync.Mutex, which is not).
type verifPipeCore struct {
	wrTok chan struct{} // write lock
	data  chan []byte
	ack   chan int
	done  chan struct{} // closed by either side
	rerr  error
	werr  error
	once  chan struct{}
}

type verifPipeReader struct{ p *verifPipeCore }
type verifPipeWriter struct{ p *verifPipeCore }

func verifPipe() (*verifPipeReader, *verifPipeWriter) {
	p := &verifPipeCore{wrTok: make(chan struct{}, 1), data: make(chan []byte), ack: make(chan int), done: make(chan struct{}), once: make(chan struct{}, 1)}
	p.wrTok <- struct{}{}
	p.once <- struct{}{}
	return &verifPipeReader{p}, &verifPipeWriter{p}
}

func (p *verifPipeCore) closeWith(rerr, werr error) {
	select {
	case <-p.once:
		p.rerr, p.werr = rerr, werr
		close(p.done)
	default:
	}
}

func (r *verifPipeReader) Read(b []byte) (int, error) {
	select {
	case <-r.p.done:
		return 0, r.p.rerr
	default:
	}
	select {
	case d := <-r.p.data:
		// the writer stays blocked until the ack: this side runs alone
		n := copy(b, d)
		r.p.ack <- n
		return n, nil
	case <-r.p.done:
		verifH.Yield() // woken by a close: re-enter the seeded schedule
		return 0, r.p.rerr
	}
}

// Close of the read side: writers get io.ErrClosedPipe.
func (r *verifPipeReader) Close() error {
	r.p.closeWith(io.ErrClosedPipe, io.ErrClosedPipe)
	return nil
}

func (w *verifPipeWriter) Write(b []byte) (n int, err error) {
	verifH.Yield()
	select {
	case <-w.p.done:
		return 0, w.p.werr
	default:
	}
	select {
	case <-w.p.done:
		verifH.Yield()
		return 0, w.p.werr
	case <-w.p.wrTok:
	}
	for once := true; once || len(b) > 0; once = false {
		select {
		case w.p.data <- b:
			k := <-w.p.ack
			b = b[k:]
			n += k
		case <-w.p.done:
			w.p.wrTok <- struct{}{}
			verifH.Yield()
			return n, w.p.werr
		}
	}
	w.p.wrTok <- struct{}{}
	// woken by the reader's ack: re-enter the seeded schedule before touching anything else
	verifH.Yield()
	return n, nil
}

// Close of the write side: readers get io.EOF.
func (w *verifPipeWriter) Close() error {
	w.p.closeWith(io.EOF, io.ErrClosedPipe)
	return nil
}
`
