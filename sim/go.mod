module verif/sim

go 1.26

require gitlab.com/gomidi/midi/v2 v2.0.0-00010101000000-000000000000

replace gitlab.com/gomidi/midi/v2 => /repo/v2
