// Package ref holds the reference models. They are written from the MIDI 1.0 and
// Standard MIDI File 1.0 specifications and share no code with the library under test.
package ref

import (
	"bytes"
	"errors"
	"fmt"

	"verif/sim/core"
)

// Event kinds.
const (
	Chan  = 1
	Meta  = 2
	Sysex = 3
)

// Event is one decoded MTrk event.
type Event struct {
	Delta    uint32   `json:"d"`
	Kind     int      `json:"k"`
	Status   byte     `json:"st"`           // Chan: full status byte; Sysex: F0 or F7; Meta: FF
	MetaType byte     `json:"mt,omitempty"` // Meta only
	Data     core.Hex `json:"data"`         // Chan: the 1 or 2 data bytes; Meta/Sysex: payload
}

// IsEOT reports whether e is the end-of-track meta event.
func (e Event) IsEOT() bool { return e.Kind == Meta && e.MetaType == 0x2F && len(e.Data) == 0 }

// LibBytes is the byte form in which the library represents the event as an smf.Message:
// channel: status+data, meta: FF type VLQ(len) payload, sysex: first byte + payload.
func (e Event) LibBytes() []byte {
	switch e.Kind {
	case Chan:
		return append([]byte{e.Status}, e.Data...)
	case Meta:
		b := []byte{0xFF, e.MetaType}
		b = append(b, VLQ(uint32(len(e.Data)))...)
		return append(b, e.Data...)
	default:
		return append([]byte{e.Status}, e.Data...)
	}
}

func (e Event) String() string {
	return fmt.Sprintf("(d=%d %X)", e.Delta, e.LibBytes())
}

// File is a decoded SMF.
type File struct {
	Format   uint16
	NTracks  uint16
	Division uint16
	Tracks   [][]Event
	// strict-parse side information
	ChunkLens []int // body length of each MTrk
	Elisions  int   // events written without a status byte
}

// VLQ encodes v in the shortest form (1..5 bytes for 32-bit values).
func VLQ(v uint32) []byte {
	var tmp [5]byte
	i := 4
	tmp[i] = byte(v & 0x7f)
	v >>= 7
	for v > 0 {
		i--
		tmp[i] = byte(v&0x7f) | 0x80
		v >>= 7
	}
	return append([]byte(nil), tmp[i:]...)
}

// VLQPad encodes v with extra leading 0x80 bytes (non-minimal but legal up to 4 bytes).
func VLQPad(v uint32, pad int) []byte {
	b := VLQ(v)
	for i := 0; i < pad; i++ {
		b = append([]byte{0x80}, b...)
	}
	return b
}

var (
	ErrTrunc = errors.New("refsmf: unexpected end of data")
)

// readVLQ reads a VLQ of at most maxBytes bytes. canonical reports shortest form.
func readVLQ(b []byte, pos int, maxBytes int) (v uint32, n int, canonical bool, err error) {
	var acc uint64
	for i := 0; ; i++ {
		if pos+i >= len(b) {
			return 0, i, false, ErrTrunc
		}
		if i >= maxBytes {
			return 0, i, false, fmt.Errorf("refsmf: VLQ longer than %d bytes at %d", maxBytes, pos)
		}
		c := b[pos+i]
		acc = acc<<7 | uint64(c&0x7f)
		if c&0x80 == 0 {
			n = i + 1
			break
		}
	}
	if acc > 0xFFFFFFFF {
		return 0, n, false, fmt.Errorf("refsmf: VLQ overflows 32 bits at %d", pos)
	}
	canonical = n == 1 || b[pos] != 0x80
	return uint32(acc), n, canonical, nil
}

func chanDataLen(status byte) int {
	switch status & 0xF0 {
	case 0xC0, 0xD0:
		return 1
	}
	return 2
}

// DecodeOpts selects strictness.
type DecodeOpts struct {
	// Strict: the checks of a strict SMF 1.0 validator for files the library writes:
	// header length 6, no alien chunks, MTrk count == ntrks, chunk length exact, one EOT
	// per track and last, canonical VLQs of <=4 bytes, no trailing bytes.
	Strict bool
	// MaxVLQ is the maximal VLQ byte count accepted (4 per the specification; the
	// library's API accepts 32-bit deltas, which need 5; C01 uses 5 for the reference
	// decoding of such files).
	MaxVLQ int
}

// Decode parses an SMF byte string.
func Decode(b []byte, o DecodeOpts) (*File, error) {
	if o.MaxVLQ == 0 {
		o.MaxVLQ = 4
	}
	if len(b) < 14 {
		return nil, ErrTrunc
	}
	if string(b[0:4]) != "MThd" {
		return nil, errors.New("refsmf: no MThd")
	}
	hl := be32(b[4:8])
	if hl < 6 {
		return nil, errors.New("refsmf: header length < 6")
	}
	if o.Strict && hl != 6 {
		return nil, fmt.Errorf("refsmf: strict: header length %d != 6", hl)
	}
	if uint64(8)+uint64(hl) > uint64(len(b)) {
		return nil, ErrTrunc
	}
	f := &File{Format: be16(b[8:10]), NTracks: be16(b[10:12]), Division: be16(b[12:14])}
	if f.Format > 2 {
		return nil, fmt.Errorf("refsmf: format %d", f.Format)
	}
	if o.Strict {
		if f.NTracks == 0 {
			return nil, errors.New("refsmf: strict: ntrks == 0")
		}
		if f.Format == 0 && f.NTracks != 1 {
			return nil, fmt.Errorf("refsmf: strict: format 0 with %d tracks", f.NTracks)
		}
		if f.Division&0x8000 != 0 {
			fps := -int(int8(f.Division >> 8))
			if fps != 24 && fps != 25 && fps != 29 && fps != 30 {
				return nil, fmt.Errorf("refsmf: strict: SMPTE rate %d", fps)
			}
		} else if f.Division == 0 {
			return nil, errors.New("refsmf: strict: division 0")
		}
	}
	pos := 8 + int(hl)
	for len(f.Tracks) < int(f.NTracks) {
		if pos+8 > len(b) {
			return f, ErrTrunc
		}
		typ := string(b[pos : pos+4])
		ln := be32(b[pos+4 : pos+8])
		pos += 8
		if uint64(pos)+uint64(ln) > uint64(len(b)) {
			return f, ErrTrunc
		}
		body := b[pos : pos+int(ln)]
		pos += int(ln)
		if typ != "MTrk" {
			if o.Strict {
				return f, fmt.Errorf("refsmf: strict: alien chunk %q", typ)
			}
			continue
		}
		evs, elisions, err := decodeTrack(body, o)
		if err != nil {
			return f, fmt.Errorf("track %d: %w", len(f.Tracks), err)
		}
		f.Tracks = append(f.Tracks, evs)
		f.ChunkLens = append(f.ChunkLens, int(ln))
		f.Elisions += elisions
	}
	if o.Strict && pos != len(b) {
		return f, fmt.Errorf("refsmf: strict: %d trailing bytes after last chunk", len(b)-pos)
	}
	return f, nil
}

func decodeTrack(body []byte, o DecodeOpts) (evs []Event, elisions int, err error) {
	pos := 0
	var running byte
	sawEOT := false
	for pos < len(body) {
		if sawEOT {
			return evs, elisions, fmt.Errorf("refsmf: data after end-of-track at body offset %d", pos)
		}
		delta, n, canon, err := readVLQ(body, pos, o.MaxVLQ)
		if err != nil {
			return evs, elisions, err
		}
		if o.Strict && !canon {
			return evs, elisions, fmt.Errorf("refsmf: strict: non-canonical delta VLQ at body offset %d", pos)
		}
		pos += n
		if pos >= len(body) {
			return evs, elisions, ErrTrunc
		}
		c := body[pos]
		switch {
		case c == 0xFF:
			if pos+2 > len(body) {
				return evs, elisions, ErrTrunc
			}
			typ := body[pos+1]
			if typ >= 0x80 {
				return evs, elisions, fmt.Errorf("refsmf: meta type %02X >= 0x80", typ)
			}
			l, n, canon, err := readVLQ(body, pos+2, o.MaxVLQ)
			if err != nil {
				return evs, elisions, err
			}
			if o.Strict && !canon {
				return evs, elisions, fmt.Errorf("refsmf: strict: non-canonical meta length at body offset %d", pos+2)
			}
			start := pos + 2 + n
			if uint64(start)+uint64(l) > uint64(len(body)) {
				return evs, elisions, ErrTrunc
			}
			e := Event{Delta: delta, Kind: Meta, Status: 0xFF, MetaType: typ, Data: clone(body[start : start+int(l)])}
			if typ == 0x2F {
				if l != 0 {
					return evs, elisions, errors.New("refsmf: end-of-track with payload")
				}
				sawEOT = true
			}
			evs = append(evs, e)
			pos = start + int(l)
			running = 0
		case c == 0xF0 || c == 0xF7:
			l, n, canon, err := readVLQ(body, pos+1, o.MaxVLQ)
			if err != nil {
				return evs, elisions, err
			}
			if o.Strict && !canon {
				return evs, elisions, fmt.Errorf("refsmf: strict: non-canonical sysex length at body offset %d", pos+1)
			}
			start := pos + 1 + n
			if uint64(start)+uint64(l) > uint64(len(body)) {
				return evs, elisions, ErrTrunc
			}
			evs = append(evs, Event{Delta: delta, Kind: Sysex, Status: c, Data: clone(body[start : start+int(l)])})
			pos = start + int(l)
			running = 0
		case c >= 0x80 && c <= 0xEF:
			k := chanDataLen(c)
			if pos+1+k > len(body) {
				return evs, elisions, ErrTrunc
			}
			d := clone(body[pos+1 : pos+1+k])
			for _, x := range d {
				if x >= 0x80 {
					return evs, elisions, fmt.Errorf("refsmf: status byte %02X where data expected at body offset %d", x, pos)
				}
			}
			evs = append(evs, Event{Delta: delta, Kind: Chan, Status: c, Data: d})
			pos += 1 + k
			running = c
		case c < 0x80:
			if running == 0 {
				return evs, elisions, fmt.Errorf("refsmf: data byte %02X without running status at body offset %d", c, pos)
			}
			k := chanDataLen(running)
			if pos+k > len(body) {
				return evs, elisions, ErrTrunc
			}
			d := clone(body[pos : pos+k])
			for _, x := range d {
				if x >= 0x80 {
					return evs, elisions, fmt.Errorf("refsmf: status byte %02X where data expected at body offset %d", x, pos)
				}
			}
			evs = append(evs, Event{Delta: delta, Kind: Chan, Status: running, Data: d})
			pos += k
			elisions++
		default: // F1..F6, F8..FE are not allowed in files
			return evs, elisions, fmt.Errorf("refsmf: illegal status %02X in track at body offset %d", c, pos)
		}
	}
	if !sawEOT {
		return evs, elisions, errors.New("refsmf: track chunk without end-of-track")
	}
	return evs, elisions, nil
}

func be16(b []byte) uint16 { return uint16(b[0])<<8 | uint16(b[1]) }
func be32(b []byte) uint32 {
	return uint32(b[0])<<24 | uint32(b[1])<<16 | uint32(b[2])<<8 | uint32(b[3])
}
func clone(b []byte) []byte { return append([]byte{}, b...) }

// ---------------------------------------------------------------------------
// Foreign encoder: files described at byte level, with encoding choices the library's
// own writer never makes.

// FEvent is an event plus the way it is to be serialised.
type FEvent struct {
	Event
	Elide    bool `json:"elide,omitempty"` // omit the status byte (only honoured where legal)
	DeltaPad int  `json:"dpad,omitempty"`  // extra leading 0x80 bytes on the delta VLQ
	LenPad   int  `json:"lpad,omitempty"`  // extra leading 0x80 bytes on a meta/sysex length VLQ
}

// FChunk is either an alien chunk or a track.
type FChunk struct {
	AlienType string   `json:"alien,omitempty"` // 4 chars, non-empty => alien
	AlienData core.Hex `json:"alien_data,omitempty"`
	Events    []FEvent `json:"events,omitempty"`
}

// FFile is a byte-level file description.
type FFile struct {
	Format   uint16   `json:"format"`
	Division uint16   `json:"division"`
	Chunks   []FChunk `json:"chunks"`
}

func (f *FFile) NTracks() int {
	n := 0
	for _, c := range f.Chunks {
		if c.AlienType == "" {
			n++
		}
	}
	return n
}

// Encode serialises the description. It also returns the structural region of every byte
// (for fault placement statistics).
func (f *FFile) Encode() (out []byte, regions []string) {
	var bf bytes.Buffer
	var rg []string
	put := func(region string, b ...byte) {
		bf.Write(b)
		for range b {
			rg = append(rg, region)
		}
	}
	put("header-type", 'M', 'T', 'h', 'd')
	put("header-len", 0, 0, 0, 6)
	put("header-format", byte(f.Format>>8), byte(f.Format))
	n := f.NTracks()
	put("header-ntrks", byte(n>>8), byte(n))
	put("header-division", byte(f.Division>>8), byte(f.Division))
	for _, c := range f.Chunks {
		if c.AlienType != "" {
			put("alien-type", []byte(c.AlienType)...)
			l := len(c.AlienData)
			put("alien-len", byte(l>>24), byte(l>>16), byte(l>>8), byte(l))
			put("alien-body", c.AlienData...)
			continue
		}
		var body bytes.Buffer
		var brg []string
		bput := func(region string, b ...byte) {
			body.Write(b)
			for range b {
				brg = append(brg, region)
			}
		}
		var running byte
		for i, e := range c.Events {
			last := i == len(c.Events)-1
			dp := padFor(e.Delta, e.DeltaPad)
			bput("delta", VLQPad(e.Delta, dp)...)
			switch e.Kind {
			case Chan:
				if !(e.Elide && running == e.Status) {
					bput("status", e.Status)
				}
				bput("chan-data", e.Data...)
				running = e.Status
			case Meta:
				r := "meta"
				if last {
					r = "eot"
				}
				bput(r+"-status", 0xFF)
				bput(r+"-type", e.MetaType)
				bput(r+"-len", VLQPad(uint32(len(e.Data)), padFor(uint32(len(e.Data)), e.LenPad))...)
				bput("meta-payload", e.Data...)
				running = 0
			case Sysex:
				bput("sysex-status", e.Status)
				bput("sysex-len", VLQPad(uint32(len(e.Data)), padFor(uint32(len(e.Data)), e.LenPad))...)
				bput("sysex-payload", e.Data...)
				running = 0
			}
		}
		put("chunk-type", 'M', 'T', 'r', 'k')
		l := body.Len()
		put("chunk-len", byte(l>>24), byte(l>>16), byte(l>>8), byte(l))
		bf.Write(body.Bytes())
		rg = append(rg, brg...)
	}
	return bf.Bytes(), rg
}

// padFor limits the padding so that the VLQ stays within 4 bytes.
func padFor(v uint32, pad int) int {
	n := len(VLQ(v))
	if n+pad > 4 {
		pad = 4 - n
	}
	if pad < 0 {
		pad = 0
	}
	return pad
}

// Expected returns what any spec-conforming decoder must yield for the description.
func (f *FFile) Expected() *File {
	out := &File{Format: f.Format, NTracks: uint16(f.NTracks()), Division: f.Division}
	for _, c := range f.Chunks {
		if c.AlienType != "" {
			continue
		}
		var evs []Event
		for _, e := range c.Events {
			evs = append(evs, e.Event)
		}
		out.Tracks = append(out.Tracks, evs)
	}
	return out
}

// EqualFiles compares two decoded files; returns "" if equal, else a description.
func EqualFiles(a, b *File) string {
	if a.Format != b.Format {
		return fmt.Sprintf("format %d != %d", a.Format, b.Format)
	}
	if a.Division != b.Division {
		return fmt.Sprintf("division %04X != %04X", a.Division, b.Division)
	}
	if len(a.Tracks) != len(b.Tracks) {
		return fmt.Sprintf("track count %d != %d", len(a.Tracks), len(b.Tracks))
	}
	for i := range a.Tracks {
		if d := EqualTracks(a.Tracks[i], b.Tracks[i]); d != "" {
			return fmt.Sprintf("track %d: %s", i, d)
		}
	}
	return ""
}

func EqualTracks(a, b []Event) string {
	for j := 0; j < len(a) && j < len(b); j++ {
		if !EqualEvent(a[j], b[j]) {
			return fmt.Sprintf("event %d: %v != %v", j, a[j], b[j])
		}
	}
	if len(a) != len(b) {
		return fmt.Sprintf("event count %d != %d", len(a), len(b))
	}
	return ""
}

func EqualEvent(a, b Event) bool {
	return a.Delta == b.Delta && a.Kind == b.Kind && a.Status == b.Status && a.MetaType == b.MetaType && bytes.Equal(a.Data, b.Data)
}

// ParseLibMessage converts the library's byte representation of a file event back into an
// Event (the inverse of LibBytes). ok=false if the bytes are not a well-formed event.
func ParseLibMessage(delta uint32, m []byte) (Event, bool) {
	if len(m) == 0 {
		return Event{}, false
	}
	switch {
	case m[0] == 0xFF:
		if len(m) < 3 {
			return Event{}, false
		}
		l, n, _, err := readVLQ(m, 2, 5)
		if err != nil || 2+n+int(l) != len(m) {
			return Event{}, false
		}
		return Event{Delta: delta, Kind: Meta, Status: 0xFF, MetaType: m[1], Data: clone(m[2+n:])}, true
	case m[0] == 0xF0 || m[0] == 0xF7:
		return Event{Delta: delta, Kind: Sysex, Status: m[0], Data: clone(m[1:])}, true
	case m[0] >= 0x80 && m[0] <= 0xEF:
		if len(m) != 1+chanDataLen(m[0]) {
			return Event{}, false
		}
		for _, x := range m[1:] {
			if x >= 0x80 {
				return Event{}, false
			}
		}
		return Event{Delta: delta, Kind: Chan, Status: m[0], Data: clone(m[1:])}, true
	}
	return Event{}, false
}
