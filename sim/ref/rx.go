package ref

// Rx is the MIDI 1.0 receiver model (DESIGN.md appendix A), written from the MIDI 1.0
// specification's receiver rules:
//   - real-time bytes (F8..FF) are delivered at once and change nothing else
//   - a channel status starts a message and becomes the running status
//   - any system common / sysex status (F0..F7) clears the running status
//   - a new (non-real-time) status byte abandons whatever was incomplete
//   - data bytes with no (running) status are ignored
//   - undefined status bytes F4/F5 are skipped together with the data that follows
//   - sysex longer than the buffer is dropped
type Rx struct {
	SysEx   bool
	BufSize int // 0 => 1024 (documented default)

	running byte
	mode    int
	status  byte
	need    int
	have    []byte
	sx      []byte
	sxOver  bool
	sxT0    int32
	t       int32
}

const (
	rxIdle = iota
	rxChan
	rxSysCom
	rxSysex
	rxSkip
)

// RxMsg is one delivery.
type RxMsg struct {
	Bytes []byte
	T     int32 // time of the chunk that completed it
	T0    int32 // sysex: time of the chunk that carried F0 (else == T)
	Chunk int   // index of the chunk during which it was delivered
}

// State names the model state (for transition coverage).
func (r *Rx) State() string {
	switch r.mode {
	case rxIdle:
		if r.running != 0 {
			return "idle+running"
		}
		return "idle"
	case rxChan:
		if len(r.have) > 0 {
			return "chan-1of2"
		}
		return "chan-0"
	case rxSysCom:
		if len(r.have) > 0 {
			return "syscom-1of2"
		}
		return "syscom-0"
	case rxSysex:
		if r.sxOver {
			return "sysex-overflowed"
		}
		return "sysex"
	default:
		return "skip"
	}
}

// Class names the byte class.
func ByteClass(b byte) string {
	switch {
	case b < 0x40:
		return "data-low"
	case b < 0x80:
		return "data-high"
	case b < 0xF0:
		switch b & 0xF0 {
		case 0xC0, 0xD0:
			return "chan1"
		default:
			return "chan2"
		}
	case b >= 0xF8:
		return "realtime"
	}
	return [...]string{"F0", "F1", "F2", "F3", "F4", "F5", "F6", "F7"}[b-0xF0]
}

func (r *Rx) bufsize() int {
	if r.BufSize == 0 {
		return 1024
	}
	return r.BufSize
}

// Feed delivers one chunk that arrives delta ms after the previous one.
func (r *Rx) Feed(chunk []byte, delta int32, chunkIdx int) (out []RxMsg) {
	r.t += delta
	emit := func(b []byte, t0 int32) {
		out = append(out, RxMsg{Bytes: append([]byte{}, b...), T: r.t, T0: t0, Chunk: chunkIdx})
	}
	for _, b := range chunk {
		switch {
		case b >= 0xF8:
			emit([]byte{b}, r.t)
		case b >= 0x80 && b <= 0xEF:
			r.running = b
			r.mode, r.status, r.have = rxChan, b, nil
			r.need = 2
			if b&0xF0 == 0xC0 || b&0xF0 == 0xD0 {
				r.need = 1
			}
		case b == 0xF0:
			r.running = 0
			r.mode = rxSysex
			r.sx = []byte{0xF0}
			r.sxOver = false
			r.sxT0 = r.t
		case b == 0xF7:
			if r.mode == rxSysex {
				if r.SysEx && !r.sxOver && len(r.sx)+1 <= r.bufsize() {
					emit(append(r.sx, 0xF7), r.sxT0)
				}
			}
			r.running = 0
			r.mode = rxIdle
			r.sx = nil
		case b == 0xF1 || b == 0xF3:
			r.running = 0
			r.mode, r.status, r.need, r.have = rxSysCom, b, 1, nil
		case b == 0xF2:
			r.running = 0
			r.mode, r.status, r.need, r.have = rxSysCom, b, 2, nil
		case b == 0xF6:
			r.running = 0
			r.mode = rxIdle
			emit([]byte{0xF6}, r.t)
		case b == 0xF4 || b == 0xF5:
			r.running = 0
			r.mode = rxSkip
		default: // data byte
			switch r.mode {
			case rxChan, rxSysCom:
				r.have = append(r.have, b)
				if len(r.have) == r.need {
					emit(append([]byte{r.status}, r.have...), r.t)
					r.mode = rxIdle
					r.have = nil
				}
			case rxIdle:
				if r.running != 0 {
					r.status = r.running
					r.need = 2
					if r.running&0xF0 == 0xC0 || r.running&0xF0 == 0xD0 {
						r.need = 1
					}
					r.have = []byte{b}
					r.mode = rxChan
					if r.need == 1 {
						emit([]byte{r.status, b}, r.t)
						r.mode = rxIdle
						r.have = nil
					}
				}
			case rxSysex:
				if len(r.sx)+1 > r.bufsize() {
					r.sxOver = true
				} else {
					r.sx = append(r.sx, b)
				}
			case rxSkip:
			}
		}
	}
	return out
}
