// Package worldcat is portworld (b): the real midicatdrv (instrumented through the overlay)
// under a seeded goroutine scheduler on a fake clock, with a simulated helper process,
// built with the race detector.
package worldcat

import (
	"fmt"
	"runtime"
	"time"

	"verif/sim/core"
)

// K is the slot length of the scheduler in fake nanoseconds. Every actor wakes only at
// instants congruent to its own residue modulo K, so two actors never wake at the same
// instant and the wake order is a total order fixed by the seed.
const K = 65536

// GMax bounds the number of slots an actor skips per yield.
const GMax = 16

const tableSize = 1 << 14

type actor struct {
	id     uint64
	rho    int64
	rng    *core.Rand
	maxGap int
	name   string
	done   bool
}

// sim is the state of the current run. It is only touched from //go:norace functions:
// actors are serialised in fake time, but there is (deliberately) no happens-before
// between them, so that the race detector keeps seeing the library's own accesses.
type simState struct {
	base      time.Time
	seed      uint64
	nextID    uint64
	shutdown  bool
	actors    [2048]*actor
	slotGoid  [tableSize]uint64
	slotActor [tableSize]*actor
	events    [1 << 16]event
	nEvents   int
	switches  uint64 // hash of the sequence of (actor) context switches
	lastActor uint64
	yields    int64
}

type event struct {
	t     int64
	actor uint64
	kind  string
	a, b  int64
	s     string
}

var sim *simState

//go:norace
func simReset(seed uint64) {
	s := &simState{seed: seed, base: time.Now()}
	s.switches = uint64(core.NewHash())
	sim = s
}

//go:norace
func now() int64 {
	return int64(time.Since(sim.base))
}

func goid() uint64 {
	var buf [40]byte
	n := runtime.Stack(buf[:], false)
	// "goroutine 123 ["
	var id uint64
	for i := 10; i < n; i++ {
		c := buf[i]
		if c < '0' || c > '9' {
			break
		}
		id = id*10 + uint64(c-'0')
	}
	return id
}

// The actor table is direct-mapped by goroutine id: a goroutine only ever reads and writes
// its own slot, so registration of a freshly started child (which briefly runs in parallel
// with its parent) cannot disturb anybody else's lookup.
//
//go:norace
func registerSelf(a *actor) {
	g := goid()
	k := g & (tableSize - 1)
	if sim.slotActor[k] != nil && !sim.slotActor[k].done && sim.slotGoid[k] != g {
		panic("worldcat: actor table collision")
	}
	sim.slotGoid[k] = g
	sim.slotActor[k] = a
}

//go:norace
func self() *actor {
	g := goid()
	k := g & (tableSize - 1)
	if sim.slotGoid[k] == g {
		return sim.slotActor[k]
	}
	return nil
}

// spawn allocates the identity of a child in the parent, at the go statement.
//
//go:norace
func spawn() uint64 {
	sim.nextID++
	id := sim.nextID
	if id >= 2048 {
		panic("worldcat: too many actors in one run")
	}
	r := core.NewRand(core.Mix(sim.seed, id))
	a := &actor{id: id, rho: int64(id), rng: r}
	a.maxGap = []int{1, 2, 4, GMax}[r.Intn(4)]
	sim.actors[id] = a
	return id
}

// enter is the first thing a child does: register, then yield at once, so that a freshly
// started goroutine never runs in parallel with its parent beyond this registration.
//
//go:norace
func enter(id uint64) {
	a := sim.actors[id]
	registerSelf(a)
	yield()
}

//go:norace
func exit() {
	if a := self(); a != nil {
		a.done = true
	}
}

//go:norace
func isShutdown() bool { return sim.shutdown }

//go:norace
func setShutdown() { sim.shutdown = true }

// yield hands control back to the seeded schedule: sleep on the fake clock until this
// actor's next chosen slot. time.Sleep creates no happens-before edge between goroutines.
//
//go:norace
func yield() {
	a := self()
	if a == nil {
		// a goroutine the harness does not know (must not happen): keep it out of the way
		time.Sleep(time.Duration(K*GMax*4 + 7))
		return
	}
	// Before the sleep only this actor's own state is touched: a goroutine that has just
	// been woken through a channel runs here in parallel with its waker for a moment.
	if sim.shutdown {
		a.done = true
		runtime.Goexit()
	}
	t := now()
	r := int64(1 + a.rng.Intn(a.maxGap))
	target := (t/K+r)*K + a.rho
	time.Sleep(time.Duration(target - t))
	// After the sleep this actor is alone: the fake clock only advanced because every
	// goroutine of the bubble was durably blocked.
	if sim.shutdown {
		a.done = true
		runtime.Goexit()
	}
	sim.yields++
	if sim.lastActor != a.id {
		sim.lastActor = a.id
		sim.switches = uint64(core.Hash(sim.switches).U64(a.id))
	}
}

// selectStart is the hook behind a select statement with several communication clauses:
// yield, then choose the clause that is tried first from the actor's own stream.
//
//go:norace
func selectStart(n int) int {
	yield()
	a := self()
	if a == nil || n <= 1 {
		return 0
	}
	return a.rng.Intn(n)
}

// sleepSlots lets an actor pass n of its slots (used for waits and helper pacing).
func sleepSlots(n int) {
	for i := 0; i < n; i++ {
		yield()
	}
}

//go:norace
func logEvent(kind string, a, b int64, s string) {
	if sim.nEvents >= len(sim.events) {
		return
	}
	var id uint64
	if me := self(); me != nil {
		id = me.id
	}
	sim.events[sim.nEvents] = event{t: now(), actor: id, kind: kind, a: a, b: b, s: s}
	sim.nEvents++
}

//go:norace
func snapshotEvents() []event {
	return append([]event{}, sim.events[:sim.nEvents]...)
}

//go:norace
func schedSignature() (uint64, int64) { return sim.switches, sim.yields }

//go:norace
func actorDone(id uint64) bool { return sim.actors[id] != nil && sim.actors[id].done }

// startThread starts a harness thread as an actor.
func startThread(f func()) uint64 {
	id := spawn()
	go func() {
		enter(id)
		defer exit()
		defer func() {
			if p := recover(); p != nil {
				logEvent("thread-panic", 0, 0, fmt.Sprint(p))
			}
		}()
		f()
	}()
	return id
}

// registerRoot makes the bubble's main goroutine an actor.
//
//go:norace
func registerRoot() {
	id := spawn()
	registerSelf(sim.actors[id])
}
