package worldcat

import (
	encjson "encoding/json"
	"fmt"
	"os"
	"sort"
	"strings"
	"time"

	"gitlab.com/gomidi/midi/v2/drivers"

	"verif/sim/core"
)

// quiescence: fake time after which a record that the reader goroutine has fully taken
// from the pipe must have reached the listener (one lock attempt = one yield of at most
// GMax slots; a factor of 8 on top).
const quiescence = 8 * GMax * K

const inf = int64(1) << 62

func keyOfRec(b []byte) (int64, bool) {
	if len(b) != 3 || b[0]&0xF0 != 0x90 || b[1] >= 0x80 || b[2] >= 0x80 {
		return 0, false
	}
	return int64(b[0]&0x0F)<<14 | int64(b[1])<<7 | int64(b[2]), true
}

// parseOutLine strictly parses a line the out-port wrote: "0 <HEX>".
func parseOutLine(s string) ([]byte, bool) {
	if !strings.HasPrefix(s, "0 ") {
		return nil, false
	}
	hx := s[2:]
	if len(hx) == 0 || len(hx)%2 != 0 {
		return nil, false
	}
	out := make([]byte, len(hx)/2)
	for i := range out {
		hi, ok1 := hexv(hx[2*i])
		lo, ok2 := hexv(hx[2*i+1])
		if !ok1 || !ok2 {
			return nil, false
		}
		out[i] = hi<<4 | lo
	}
	return out, true
}

func hexv(c byte) (byte, bool) {
	switch {
	case c >= '0' && c <= '9':
		return c - '0', true
	case c >= 'A' && c <= 'F':
		return c - 'A' + 10, true
	}
	return 0, false
}

// threadKind names a thread without its numbers ("sender-4-1" -> "sender"): keys name the kind
// of failure.
func threadKind(t string) string {
	if i := strings.IndexByte(t, '-'); i > 0 {
		return t[:i]
	}
	return t
}

func (s *CatSc) Run(env *core.Env, st *core.Stats) (vs []core.Violation) {
	ro := s.execute(env)
	st.Eval(1)
	js, _ := toJSON(s)
	desc := core.Trunc(js, 700)
	add := func(clause, key, format string, a ...any) {
		vs = append(vs, core.V(clause, key, format+"; scenario "+desc, a...))
	}
	if f := os.Getenv("VERIF_EVENTS"); f != "" {
		// debugging aid: the event log of the run (replay mode), not read by any check
		var b strings.Builder
		for _, e := range ro.events {
			fmt.Fprintf(&b, "%d actor=%d %s %d %d %q\n", e.t, e.actor, e.kind, e.a, e.b, core.Trunc(e.s, 80))
		}
		os.WriteFile(f, []byte(b.String()), 0o644)
	}
	if st != nil {
		st.SimTime(time.Duration(ro.simTime))
		st.Distinct(core.NewHash().U64(ro.sig).Str(js))
		st.FaultN("scheduler-yield", ro.yields)
		for _, e := range ro.events {
			st.Log("%d %d %s %d %d %s", e.t, e.actor, e.kind, e.a, e.b, e.s)
			switch e.kind {
			case "helper-start-failed":
				st.Fault("helper-cannot-start")
			case "helper-stall":
				st.Fault("helper-stalls")
			case "helper-died":
				st.Fault("helper-dies")
			case "helper-kill":
				st.Fault("helper-killed-by-close")
			case "observe":
				st.Probe("observer-saw-open-port")
			}
		}
		st.Sample(map[string]any{"scenario": s, "events": len(ro.events), "yields": ro.yields, "fake_time_ns": ro.simTime})
	}
	for _, e := range ro.events {
		if e.kind == "driver-unusable" {
			add("driver-listing", "unusable", "the driver cannot list the ports of a working helper: %s", e.s)
			return vs
		}
		if e.kind == "thread-panic" {
			add("panic", "panic:"+structKeyOf(e.s), "a lifecycle call panicked: %s", e.s)
			return vs
		}
	}
	if ro.pan != "" {
		add("panic", "panic:"+structKeyOf(ro.pan), "the run panicked: %s", ro.pan)
		return vs
	}

	// ---- liveness: every lifecycle call returns within the fake-time budget
	for _, c := range ro.calls {
		if c.end == 0 {
			add("liveness", threadKind(c.thread)+"-"+c.op, "%s: call #%d %s did not return (started at fake t=%d ns, run ended at %d ns, budget per call %d ns)", c.thread, c.idx, c.op, c.start, ro.simTime, int64(callBudget))
			return vs
		}
		if c.end-c.start > callBudget {
			add("liveness", threadKind(c.thread)+"-"+c.op, "%s: call #%d %s took %d ns of fake time, budget %d", c.thread, c.idx, c.op, c.end-c.start, int64(callBudget))
			return vs
		}
	}
	if ro.timeout {
		add("liveness", "thread", "a lifecycle thread did not finish within the fake-time limit although all its calls returned")
		return vs
	}

	for _, e := range ro.events {
		if e.kind == "extra-after-driverclose" {
			st.Probe("driver-close-with-a-second-open-port")
			if e.a == 1 {
				add("driver-close", "port-left-open", "Driver.Close returned but port %s, opened on the same driver, is still open", e.s)
				return vs
			}
		}
	}
	for _, c := range ro.calls {
		if (c.op == "open-extra" || c.op == "close-extra") && c.err != nil {
			add("idempotent-open-close", "extra-port", "%s: %s of the second port returned %v", c.thread, c.op, c.err)
			return vs
		}
	}
	s.checkIn(ro, st, add)
	if len(vs) > 0 {
		return vs
	}
	s.checkOut(ro, st, add)
	return vs
}

func structKeyOf(msg string) string {
	for i := 0; i < len(msg); i++ {
		if msg[i] >= '0' && msg[i] <= '9' {
			msg = msg[:i]
			break
		}
	}
	return core.Trunc(strings.TrimSpace(msg), 48)
}

func toJSON(v any) (string, error) {
	b, err := encjson.Marshal(v)
	return string(b), err
}

type listenRec struct {
	flip     bool // this listener asked for the opposite options
	lc, lr   int64
	ok       bool
	period   int // which open period of the port the listener belongs to
	stopCall int64
	stopRet  int64
}

func (s *CatSc) checkIn(ro runOut, st *core.Stats, add func(clause, key, format string, a ...any)) {
	if len(s.InOps) == 0 {
		return
	}
	// model of the in thread
	period := 0
	open := false
	startAttempt := 0
	listeners := map[int64]*listenRec{}
	var active int64
	helperStarts := 0
	for _, e := range ro.events {
		if e.kind == "helper-start" && e.s == "in" {
			helperStarts++
		}
	}
	expectStarts := 0
	for _, c := range ro.calls {
		if c.thread != "in" {
			continue
		}
		switch c.op {
		case "open":
			if open {
				st.Probe("in:open-while-open")
				if c.err != nil {
					add("idempotent-open-close", "in-open", "second Open of the open in port returned %v", c.err)
					return
				}
				break
			}
			fails := false
			for _, f := range s.InHelper.FailStarts {
				if f == startAttempt {
					fails = true
				}
			}
			startAttempt++
			if fails {
				st.Probe("in:open-with-start-failure")
				if c.err == nil {
					add("open-result", "in-start-failed-nil", "Open returned nil although the helper could not be started")
					return
				}
			} else {
				expectStarts++
				if c.err != nil {
					add("open-result", "in-open-error", "Open of the in port failed: %v", c.err)
					return
				}
				open = true
				period++
			}
		case "listen":
			l := &listenRec{lc: c.start, lr: c.end, stopCall: inf, stopRet: inf}
			if c.idx >= 0 && c.idx < len(s.InOps) && s.InOps[c.idx].M == 1 {
				l.flip = true
			}
			listeners[c.info] = l
			if !open && s.ViaListenTo {
				// midi.ListenTo opens the port first
				st.Probe("in:ListenTo-opens-the-port")
				fails := false
				for _, f := range s.InHelper.FailStarts {
					if f == startAttempt {
						fails = true
					}
				}
				startAttempt++
				if fails {
					if c.err == nil {
						add("open-result", "in-start-failed-nil", "ListenTo returned nil although the helper could not be started")
						return
					}
					break
				}
				expectStarts++
				open = true
				period++
			}
			if !open {
				st.Probe("in:listen-on-closed-port")
				if c.err != drivers.ErrPortClosed {
					add("listen-closed", "in-listen-closed", "Listen on the closed in port returned %v, want ErrPortClosed", c.err)
					return
				}
				break
			}
			if active != 0 {
				// a listener is active: this driver refuses a second one; the refused call
				// must leave the active listener (and its stop function) untouched
				if c.err != nil {
					st.Probe("in:listen-refused-while-listening")
					break // refused: nothing may change (checked through the deliveries of the active listener)
				}
				// accepted: the new listener replaces the old one from here on
				st.Probe("in:second-listener-accepted")
				if old := listeners[active]; old != nil && old.stopCall == inf {
					old.stopCall = c.start
				}
				l.ok = true
				active = c.info
				break
			}
			if c.err != nil {
				key := "in-listen-error"
				if len(listeners) > 1 {
					key = "in-relisten-error"
				}
				add("listen-works", key, "Listen on the open in port (no active listener) failed: %v", c.err)
				return
			}
			if len(listeners) > 1 {
				st.Probe("in:re-listen")
			}
			l.ok = true
			l.period = period
			active = c.info
		case "stop":
			if l := listeners[c.info]; l != nil {
				if l.stopCall == inf {
					l.stopCall, l.stopRet = c.start, c.end
				} else {
					st.Probe("in:stop-twice")
				}
				if active == c.info {
					active = 0
				} else if active != 0 {
					st.Probe("in:stale-stop-with-active-listener")
					if l.period != period {
						st.Probe("in:stop-function-of-an-earlier-open-period-called-while-a-listener-is-active")
					}
				}
			}
		case "close", "driverclose":
			if !open {
				st.Probe("in:close-while-closed")
			}
			if c.err != nil {
				add("idempotent-open-close", "in-close", "%s of the in port returned %v", c.op, c.err)
				return
			}
			// closing ends every listener of this open period
			for _, l := range listeners {
				if l.ok && l.stopCall == inf {
					l.stopCall, l.stopRet = c.start, c.end
				}
			}
			open = false
			active = 0
		}
	}
	if helperStarts != expectStarts {
		add("idempotent-open-close", "in-helper-starts", "the in port started its helper %d times, %d open transitions happened (Open of an open port must change nothing)", helperStarts, expectStarts)
		return
	}
	// records
	es := map[int64]int64{}
	ed := map[int64]int64{}
	var order []int64
	for _, e := range ro.events {
		if e.b != 0 {
			continue // a record of the second in port's helper: nobody listens there
		}
		switch e.kind {
		case "emit-start":
			es[e.a] = e.t
			order = append(order, e.a)
		case "emit-done":
			ed[e.a] = e.t
		}
	}
	delivered := map[int64]map[int64]bool{}
	seen := map[int64]bool{}
	last := map[int64]int64{}
	lastCb := map[int64]int64{} // time of the latest call of each listener
	for _, e := range ro.events {
		if e.kind == "slow-callback" {
			st.Fault("listener-callback-stalls")
			st.ProbeIf(s.InHelper.Burst > 1000, "in:burst-of-more-than-1000-records-meets-a-stalled-listener")
		}
		if e.kind == "callback-returns" {
			lastCb[e.a] = e.t // the listener was busy until now
		}
		if e.kind != "callback" {
			continue
		}
		j := e.a
		k := e.b
		if es[k] == 0 || string(s.inRecMsg(k)) != e.s {
			add("in-delivery", "altered", "listener #%d received (%d, % X), which is no record the helper emitted", j, e.b, []byte(e.s))
			return
		}
		if lj := listeners[j]; s.filteredFor(k, lj != nil && lj.flip) {
			add("listen-options", "filtered-class-delivered", "listener #%d received %s although its class is switched off (scenario options active_sense=%v timing_clock=%v sysex=%v, this listener asked for the opposite: %v)", j, core.Trunc(fmt.Sprintf("% X", []byte(e.s)), 60), s.ActiveSense, s.TimeCode, s.SysEx, lj != nil && lj.flip)
			return
		}
		if s.Mix && len(e.s) > 0 && (e.s[0] == 0xFE || e.s[0] == 0xF8 || e.s[0] == 0xF0) {
			st.Probe("in:option-class-delivered-because-enabled")
		}
		l := listeners[j]
		if l == nil || e.t < l.lc {
			add("in-delivery", "before-listen", "listener #%d was called at t=%d before its Listen was called", j, e.t)
			return
		}
		if e.t > l.stopRet {
			add("no-callback-after-stop", "in-callback-after-stop", "listener #%d was called with record %d at fake t=%d ns, its stop function had returned at t=%d ns", j, k, e.t, l.stopRet)
			return
		}
		if seen[k] {
			add("in-delivery", "duplicate", "record %d was delivered twice", k)
			return
		}
		seen[k] = true
		if k <= last[j] {
			add("in-delivery", "order", "listener #%d received record %d after record %d", j, k, last[j])
			return
		}
		last[j] = k
		lastCb[j] = e.t
		if delivered[j] == nil {
			delivered[j] = map[int64]bool{}
		}
		delivered[j][k] = true
		if e.t > l.stopCall {
			st.Probe("in:callback-between-stop-call-and-return")
		}
	}
	var js []int64
	for j := range listeners {
		js = append(js, j)
	}
	sort.Slice(js, func(a, b int) bool { return js[a] < js[b] })
	for _, j := range js {
		l := listeners[j]
		if !l.ok {
			continue
		}
		// a listener that is never stopped is served until the run is ended
		until := l.stopCall
		if ro.simTime < until {
			until = ro.simTime
		}
		for _, k := range order {
			if ed[k] == 0 {
				continue
			}
			if s.filteredFor(k, l.flip) {
				st.Probe("in:record-of-a-switched-off-class")
				continue
			}
			if es[k] >= l.lr && ed[k]+quiescence <= until {
				st.Probe("in:must-deliver-record")
				if delivered[j][k] {
					continue
				}
				// Overdue. Delivery is in order, so a later record that did arrive proves a loss;
				// otherwise the record may still wait in a queue inside the driver, which is
				// no loss as long as the listener keeps being served: a loss it is when nothing
				// at all reached the listener during the last quiescence period of the window.
				if last[j] > k {
					add("in-delivery", "lost", "record %d was written by the helper at fake t=%d..%d ns while listener #%d was active (Listen returned at %d, stop called at %d) but never reached it, record %d did", k, es[k], ed[k], j, l.lr, l.stopCall, last[j])
					return
				}
				if until-lastCb[j] > quiescence {
					add("in-delivery", "lost", "record %d was written by the helper at fake t=%d..%d ns while listener #%d was active (Listen returned at %d, stop called at %d, run ended at %d) but never reached it; the listener was last called at t=%d", k, es[k], ed[k], j, l.lr, l.stopCall, ro.simTime, lastCb[j])
					return
				}
				st.Probe("in:backlog-still-draining-at-the-end-of-the-window")
			} else if es[k] < l.stopRet && ed[k] > l.lr {
				st.Probe("in:record-in-flight-at-listen/stop-boundary")
			}
		}
	}
}

func (s *CatSc) checkOut(ro runOut, st *core.Stats, add func(clause, key, format string, a ...any)) {
	if len(s.OutOps) == 0 {
		return
	}
	type iv struct{ from, to, since int64 } // since: start of the Open call of this period
	var surelyOpen, surelyClosed []iv
	open := false
	startAttempt := 0
	expectStarts := 0
	lastClosedFrom := int64(0) // closed from the beginning
	var openFrom, openSince int64
	var died int64 = inf
	helperStarts := 0
	for _, e := range ro.events {
		if e.kind == "helper-start" && e.s == "out" {
			helperStarts++
		}
	}
	// helper death times per helper instance: a death only matters until the next open
	var deaths []int64
	for _, e := range ro.events {
		if e.kind == "helper-died" && e.s == "out" {
			deaths = append(deaths, e.t)
		}
	}
	for _, c := range ro.calls {
		if c.thread != "out" {
			continue
		}
		switch c.op {
		case "open":
			if open {
				st.Probe("out:open-while-open")
				if c.err != nil {
					add("idempotent-open-close", "out-open", "second Open of the open out port returned %v", c.err)
					return
				}
				break
			}
			fails := false
			for _, f := range s.OutHelper.FailStarts {
				if f == startAttempt {
					fails = true
				}
			}
			startAttempt++
			if fails {
				st.Probe("out:open-with-start-failure")
				if c.err == nil {
					add("open-result", "out-start-failed-nil", "Open returned nil although the helper could not be started")
					return
				}
				break
			}
			expectStarts++
			if c.err != nil {
				add("open-result", "out-open-error", "Open of the out port failed: %v", c.err)
				return
			}
			surelyClosed = append(surelyClosed, iv{from: lastClosedFrom, to: c.start})
			open = true
			openFrom = c.end
			openSince = c.start
		case "close", "driverclose":
			if !open {
				st.Probe("out:close-while-closed")
			}
			if c.err != nil {
				add("idempotent-open-close", "out-close", "%s of the out port returned %v", c.op, c.err)
				return
			}
			if open {
				surelyOpen = append(surelyOpen, iv{from: openFrom, to: c.start, since: openSince})
				lastClosedFrom = c.end
			}
			open = false
		}
	}
	if open {
		surelyOpen = append(surelyOpen, iv{from: openFrom, to: inf, since: openSince})
	} else {
		surelyClosed = append(surelyClosed, iv{from: lastClosedFrom, to: inf})
	}
	if helperStarts != expectStarts {
		add("idempotent-open-close", "out-helper-starts", "the out port started its helper %d times, %d open transitions happened", helperStarts, expectStarts)
		return
	}
	_ = died
	inside := func(l []iv, a, b int64) *iv {
		for i := range l {
			if a >= l[i].from && b <= l[i].to {
				return &l[i]
			}
		}
		return nil
	}
	// sends
	type send struct {
		k      int64
		thread string
		start  int64
		end    int64
		err    error
		extra  bool // sent on the second out port (open for the whole session)
	}
	var sends []send
	byK := map[int64]*send{}
	for _, c := range ro.calls {
		if c.op != "send" && c.op != "send-extra" {
			continue
		}
		sends = append(sends, send{k: c.info, thread: c.thread, start: c.start, end: c.end, err: c.err, extra: c.op == "send-extra"})
	}
	for i := range sends {
		byK[sends[i].k] = &sends[i]
	}
	// lines the helper saw
	linePos := map[int64]int{}
	inDead := map[int64]bool{} // lines a process had read before it ended, without acting on them
	atKill := map[int64]bool{} // lines still unread in the pipe of a process when the driver killed it
	n := 0
	for _, e := range ro.events {
		switch e.kind {
		case "helper-partial":
			add("out-lines", "fragment", "the helper received the incomplete line %q", e.s)
			return
		case "helper-line-lost-at-kill":
			if msg, ok := parseOutLine(e.s); ok {
				if k, ok := keyOfRec(msg); ok {
					atKill[k] = true
				}
			}
		case "helper-line-lost-in-dead-process":
			if msg, ok := parseOutLine(e.s); ok {
				if k, ok := keyOfRec(msg); ok {
					inDead[k] = true
				}
			}
		case "helper-line":
			msg, ok := parseOutLine(e.s)
			var k int64
			if ok {
				k, ok = keyOfRec(msg)
			}
			if !ok || byK[k] == nil {
				add("out-lines", "garbled", "the helper received the line %q, which is no message that was sent", e.s)
				return
			}
			if _, dup := linePos[k]; dup {
				add("out-lines", "duplicate", "message %d reached the helper twice", k)
				return
			}
			linePos[k] = n
			n++
			if e.t < byK[k].start {
				add("out-lines", "outside-call", "message %d reached the helper at t=%d, before its Send call (%d..%d) had begun", k, e.t, byK[k].start, byK[k].end)
				return
			}
			if e.t > byK[k].end {
				// a driver may queue: the property does not say that the line is with the
				// helper when Send returns (with a real pipe it never is)
				st.Probe("out:line-reached-the-helper-after-its-Send-had-returned")
			}
		}
	}
	// what a process that has ended still took from its stdin (see runOutHelper)
	var dropped []int64
	for _, e := range ro.events {
		if e.kind == "helper-dropped" && e.a > 0 {
			dropped = append(dropped, e.t)
		}
	}
	lastPos := map[string]int{}
	for _, sd := range sends {
		pos, arrived := linePos[sd.k]
		if sd.err == nil {
			st.Probe("out:send-ok")
			intoTheVoid := false
			for _, t := range dropped {
				if t >= sd.start && t <= sd.end {
					intoTheVoid = true
				}
			}
			if (intoTheVoid || inDead[sd.k]) && !arrived {
				st.Probe("out:send-accepted-by-a-helper-that-had-just-ended")
				continue
			}
			if !arrived && atKill[sd.k] {
				// the driver itself killed the helper while the line was still on its way
				add("out-lines", "lost", "%s: Send of message %d returned nil (at fake t=%d), the port was closed afterwards, and the helper process was killed before it had read that line", sd.thread, sd.k, sd.end)
				return
			}
			if !arrived {
				// neither seen nor destroyed: still on its way when the run was ended
				if ro.simTime-sd.end <= quiescence+150*GMax*K {
					st.Probe("out:line-still-on-its-way-when-the-run-ended")
					continue
				}
				add("out-lines", "lost", "%s: Send of message %d returned nil but no such line reached the helper", sd.thread, sd.k)
				return
			}
		}
		if arrived {
			if p, ok := lastPos[sd.thread]; ok && pos < p {
				add("out-lines", "order", "%s: message %d reached the helper before an earlier message of the same sender", sd.thread, sd.k)
				return
			}
			lastPos[sd.thread] = pos
		}
		if sd.extra {
			st.Probe("out:send-on-second-port")
			continue // only the integrity of its line is checked (above)
		}
		if inside(surelyClosed, sd.start, sd.end) != nil {
			st.Probe("out:send-on-closed-port")
			if sd.err != drivers.ErrPortClosed {
				add("send-closed", "out-wrong-error", "%s: Send on the closed out port returned %v, want ErrPortClosed", sd.thread, sd.err)
				return
			}
		} else if o := inside(surelyOpen, sd.start, sd.end); o != nil {
			// was the helper of this open period already dead when the call started?
			dead := false
			for _, d := range deaths {
				// the helper exists (and may die) from the moment Open starts it
				if d >= o.since && d <= sd.start && d <= o.to {
					dead = true
				}
			}
			deadDuring := false
			for _, d := range deaths {
				if d > sd.start && d <= sd.end {
					deadDuring = true
				}
			}
			switch {
			case dead:
				// what Send returns once the helper process is gone is not fixed by the
				// property (the first write after the death is even accepted by the operating
				// system's plumbing); that it returns at all is the liveness clause
				st.Probe("out:send-after-helper-died")
			case !deadDuring:
				if sd.err != nil {
					add("send-open", "error", "%s: Send on the open out port with a live helper returned %v", sd.thread, sd.err)
					return
				}
			}
		} else {
			st.Probe("out:send-races-with-open/close")
		}
	}
	_ = fmt.Sprint
}
