package worldcat

import (
	"encoding/json"
	"errors"
	"fmt"
	"os/exec"
	"strings"
	"testing"
	"testing/synctest"
	"time"

	"gitlab.com/gomidi/midi/v2"
	"gitlab.com/gomidi/midi/v2/drivers"
	"gitlab.com/gomidi/midi/v2/drivers/midicatdrv"

	"verif/sim/core"
)

// CatOp is one step of a lifecycle thread.
//
// in-port thread:  open listen wait stop close driverclose
// out-port thread: open senders join send close driverclose wait
type CatOp struct {
	Op string `json:"op"`
	N  int    `json:"n,omitempty"` // wait: slots; senders: number of sender threads; stop: which listen (0 = latest, k = k-th latest)
	M  int    `json:"m,omitempty"` // senders: messages per sender
}

// HelperCfg describes the simulated helper process of a port.
type HelperCfg struct {
	FailStarts []int `json:"fail_starts,omitempty"` // which Start attempts (0-based) fail: "helper cannot be started"
	Gap        int   `json:"gap"`                   // in: slots between emitted records; out: slots between stdin reads
	StallAt    int   `json:"stall_at,omitempty"`    // after this many records/lines the helper stalls ...
	StallLen   int   `json:"stall_len,omitempty"`   // ... for this many slots
	DieAt      int   `json:"die_at,omitempty"`      // after this many records/lines the helper dies (0 = never, -1 = as soon as it has been started)
	ReadBuf    int   `json:"read_buf,omitempty"`    // out helper: size of its read buffer
	Burst      int   `json:"burst,omitempty"`       // in helper: number of records it emits at most (0 = 400)
}

// CatSc is a portworld (b) scenario.
type CatSc struct {
	SchedSeed uint64    `json:"sched_seed"`
	InOps     []CatOp   `json:"in_ops,omitempty"`
	OutOps    []CatOp   `json:"out_ops,omitempty"`
	InHelper  HelperCfg `json:"in_helper"`
	OutHelper HelperCfg `json:"out_helper"`
	// Observers is the number of extra threads that only call the read-only port methods
	// (IsOpen, String, Number) while the lifecycle threads work.
	Observers int `json:"observers,omitempty"`
	// Listen options used by every Listen of the in thread, and whether the in helper mixes
	// active-sense, timing-clock and sysex records into its output (C14 on this driver).
	ActiveSense bool `json:"active_sense,omitempty"`
	TimeCode    bool `json:"timing_clock,omitempty"`
	SysEx       bool `json:"sysex,omitempty"`
	Mix         bool `json:"mix,omitempty"`
	// Extra: every lifecycle thread also opens the second port of its kind (number 1) for
	// the whole session; half of the sender threads use the second out port.
	Extra bool `json:"extra,omitempty"`
	// ViaListenTo: listeners are attached with midi.ListenTo (which opens the port if
	// necessary) instead of in.Listen.
	ViaListenTo bool `json:"via_listen_to,omitempty"`
	// A stalled consumer: the SlowAt-th call of a listener callback (1-based, 0 = never)
	// does not return for SlowSlots slots of fake time.
	SlowAt    int `json:"slow_at,omitempty"`
	SlowSlots int `json:"slow_slots,omitempty"`
}

// inRecMsg is the message carried by record k of the in helper.
func (s *CatSc) inRecMsg(k int64) []byte {
	if s.Mix && k%11 == 4 {
		// a long sysex dump (a line of more than 4096 characters on the helper's output)
		b := make([]byte, 0, 3002)
		b = append(b, 0xF0)
		for i := 0; i < 3000; i++ {
			b = append(b, byte((int64(i)+k)&0x7F))
		}
		return append(b, 0xF7)
	}
	if s.Mix {
		switch k % 6 {
		case 1:
			return []byte{0xFE}
		case 3:
			return []byte{0xF8}
		case 5:
			return []byte{0xF0, byte(k >> 7 & 0x7F), byte(k & 0x7F), 0xF7}
		}
	}
	return recMsg(k)
}

// filteredFor reports whether the listen options keep record k from a listener (flip: the
// listener asked for the opposite of the scenario's options).
func (s *CatSc) filteredFor(k int64, flip bool) bool {
	m := s.inRecMsg(k)
	as, tc, sx := s.ActiveSense, s.TimeCode, s.SysEx
	if flip {
		as, tc, sx = !as, !tc, !sx
	}
	switch {
	case m[0] == 0xFE:
		return !as
	case m[0] == 0xF8:
		return !tc
	case m[0] == 0xF0:
		return !sx
	}
	return false
}

type catWorld struct{}

// Worlds is the registry of this package.
var Worlds = map[string]core.World{"C17b": catWorld{}}

func (catWorld) Decode(raw json.RawMessage) (core.Scenario, error) {
	var s CatSc
	if err := json.Unmarshal(raw, &s); err != nil {
		return nil, err
	}
	return &s, nil
}

func (catWorld) Gen(seed uint64, tier string) core.Scenario {
	r := core.NewRand(seed)
	s := &CatSc{SchedSeed: r.Uint64()}
	mode := r.Weighted(40, 35, 25) // in only, out only, both
	if r.Chance(1, 3) {
		s.Observers = r.Range(1, 2)
	}
	s.Extra = r.Chance(1, 4)
	s.ViaListenTo = r.Chance(1, 4)
	if mode == 0 || mode == 2 {
		s.InHelper = HelperCfg{Gap: r.PickInt(1, 1, 2, 5, 20)}
		if r.Chance(1, 3) {
			s.Mix = true
			s.ActiveSense, s.TimeCode, s.SysEx = r.Bool(), r.Bool(), r.Bool()
		}
		if r.Chance(1, 5) {
			s.InHelper.FailStarts = []int{r.Intn(2)}
		}
		if r.Chance(1, 5) {
			s.InHelper.StallAt, s.InHelper.StallLen = r.Range(1, 6), r.PickInt(20, 60, 150)
		}
		if r.Chance(1, 8) {
			s.InHelper.DieAt = r.Range(1, 8)
			if r.Chance(1, 8) {
				s.InHelper.DieAt = -1 // the process ends as soon as it has been started
			}
		}
		if mode == 0 && r.Chance(1, 48) {
			// a burst of more than a thousand records meets a listener that does not return
			// for a long time, then everything is given time to drain
			s.InHelper = HelperCfg{Gap: 0, Burst: r.PickInt(1100, 1300)}
			s.Mix, s.Observers, s.Extra = false, 0, false
			s.SlowAt, s.SlowSlots = r.Range(1, 20), r.PickInt(30000, 45000)
			s.InOps = []CatOp{{Op: "open"}, {Op: "listen"}, {Op: "drain"}, {Op: "stop"}, {Op: "close"}}
			return s
		}
		if r.Chance(1, 40) {
			// stop functions that outlive a close and re-open of the port: k listeners before the
			// re-open, k after it, then a stop function of the first open period is called again
			k := r.Range(1, 3)
			s.InOps = []CatOp{{Op: "open"}}
			for i := 0; i < k; i++ {
				s.InOps = append(s.InOps, CatOp{Op: "listen"}, CatOp{Op: "wait", N: r.PickInt(1, 5, 20)}, CatOp{Op: "stop"})
			}
			s.InOps = append(s.InOps, CatOp{Op: "close"}, CatOp{Op: "open"})
			for i := 0; i < k; i++ {
				s.InOps = append(s.InOps, CatOp{Op: "listen"})
				if i < k-1 {
					s.InOps = append(s.InOps, CatOp{Op: "wait", N: r.PickInt(1, 5)}, CatOp{Op: "stop"})
				}
			}
			// the latest listener stays active; the N-th latest successful Listen before it
			// belongs to the first open period for N >= k
			s.InOps = append(s.InOps, CatOp{Op: "stop", N: r.Range(k, 2*k-1)}, CatOp{Op: "wait", N: r.PickInt(60, 150)}, CatOp{Op: "stop"}, CatOp{Op: "close"})
			return s
		}
		if r.Chance(1, 6) {
			s.SlowAt, s.SlowSlots = r.Range(1, 6), r.PickInt(20, 100, 400)
		}
		open, listening := false, false
		nListens := 0
		n := r.PickInt(3, 5, 8, 12)
		if tier == "thorough" && r.Chance(1, 3) {
			n = r.PickInt(20, 30)
		}
		for len(s.InOps) < n {
			switch r.Weighted(20, 22, 25, 18, 10, 5) {
			case 0:
				s.InOps = append(s.InOps, CatOp{Op: "open"})
				open = true // (may fail; the executor's model follows the real outcome)
			case 1:
				if listening {
					// a second Listen while a listener is active is refused by this driver
					// ("listener already set"); a refused call must change nothing
					if r.Chance(1, 4) {
						// M = 1: this (normally refused) Listen asks for the opposite options
						s.InOps = append(s.InOps, CatOp{Op: "listen", M: r.Intn(2)})
						nListens++
					}
					continue
				}
				s.InOps = append(s.InOps, CatOp{Op: "listen"})
				if open {
					listening = true
				}
				nListens++
			case 2:
				s.InOps = append(s.InOps, CatOp{Op: "wait", N: r.PickInt(1, 5, 20, 60, 150)})
			case 3:
				if nListens == 0 {
					continue
				}
				op := CatOp{Op: "stop"}
				if r.Chance(1, 3) && nListens > 1 {
					op.N = r.Range(1, nListens-1) // a stale stop function (of an earlier Listen)
				}
				s.InOps = append(s.InOps, op)
				if op.N == 0 {
					listening = false
				}
			case 4:
				if listening { // the listening must be stopped before the port may be closed
					continue
				}
				s.InOps = append(s.InOps, CatOp{Op: "close"})
				open = false
			default:
				// Driver.Close closes every port: only without a second lifecycle thread
				// (lifecycle calls on one port are never issued concurrently)
				if listening || mode == 2 {
					continue
				}
				s.InOps = append(s.InOps, CatOp{Op: "driverclose"})
				open = false
			}
		}
		if listening {
			s.InOps = append(s.InOps, CatOp{Op: "stop"})
		}
		s.InOps = append(s.InOps, CatOp{Op: "close"})
		if r.Chance(1, 2) {
			s.InOps = append(s.InOps, CatOp{Op: "close"})
		}
	}
	if mode == 1 || mode == 2 {
		s.OutHelper = HelperCfg{Gap: r.PickInt(0, 0, 1, 3), ReadBuf: r.PickInt(1, 3, 7, 16, 64)}
		if r.Chance(1, 5) {
			s.OutHelper.FailStarts = []int{r.Intn(2)}
		}
		if r.Chance(1, 6) {
			s.OutHelper.StallAt, s.OutHelper.StallLen = r.Range(1, 6), r.PickInt(20, 100)
		}
		if r.Chance(1, 8) {
			s.OutHelper.DieAt = r.Range(1, 6)
			if r.Chance(1, 8) {
				s.OutHelper.DieAt = -1 // the process ends as soon as it has been started
			}
		}
		n := r.PickInt(3, 5, 8, 12)
		if tier == "thorough" && r.Chance(1, 3) {
			n = r.PickInt(20, 30)
		}
		running := false
		for len(s.OutOps) < n {
			switch r.Weighted(20, 25, 12, 15, 13, 10, 5) {
			case 0:
				s.OutOps = append(s.OutOps, CatOp{Op: "open"})
			case 1:
				if running {
					continue
				}
				s.OutOps = append(s.OutOps, CatOp{Op: "senders", N: r.Range(1, 4), M: r.Range(1, 5)})
				running = true
			case 2:
				if !running {
					continue
				}
				s.OutOps = append(s.OutOps, CatOp{Op: "join"})
				running = false
			case 3:
				s.OutOps = append(s.OutOps, CatOp{Op: "send"})
			case 4:
				s.OutOps = append(s.OutOps, CatOp{Op: "close"})
			case 5:
				s.OutOps = append(s.OutOps, CatOp{Op: "wait", N: r.PickInt(1, 5, 20, 60)})
			default:
				if mode == 2 {
					continue
				}
				s.OutOps = append(s.OutOps, CatOp{Op: "driverclose"})
			}
		}
		if running {
			s.OutOps = append(s.OutOps, CatOp{Op: "join"})
		}
		s.OutOps = append(s.OutOps, CatOp{Op: "close"})
		if r.Chance(1, 2) {
			s.OutOps = append(s.OutOps, CatOp{Op: "close"})
		}
	}
	return s
}

func (s *CatSc) Size() int { return len(s.InOps) + len(s.OutOps) }

func (s *CatSc) Shrinks(try0 func(core.Scenario) bool) bool {
	try := func(c core.Scenario) bool {
		x := c.(*CatSc)
		if len(x.InOps) > 0 && len(x.OutOps) > 0 {
			for _, op := range append(append([]CatOp{}, x.InOps...), x.OutOps...) {
				if op.Op == "driverclose" {
					return false
				}
			}
		}
		// protocol: never close the in port while a listener is active
		listening := false
		nl := 0
		for _, op := range x.InOps {
			switch op.Op {
			case "listen":
				listening = true
				nl++
			case "stop":
				if op.N == 0 {
					listening = false
				}
			case "close", "driverclose":
				if listening {
					return false
				}
			}
		}
		return try0(c)
	}
	if len(s.OutOps) > 0 && len(s.InOps) > 0 {
		c := *s
		c.OutOps = nil
		if try(&c) {
			return true
		}
		c = *s
		c.InOps = nil
		if try(&c) {
			return true
		}
	}
	if core.ShrinkList(s.InOps, func(l []CatOp) bool {
		c := *s
		c.InOps = l
		return len(l) > 0 && try(&c)
	}) {
		return true
	}
	if core.ShrinkList(s.OutOps, func(l []CatOp) bool {
		c := *s
		c.OutOps = l
		return len(l) > 0 && try(&c)
	}) {
		return true
	}
	if s.Observers > 0 {
		c := *s
		c.Observers = 0
		if try(&c) {
			return true
		}
	}
	if s.Extra {
		c := *s
		c.Extra = false
		if try(&c) {
			return true
		}
	}
	if s.ViaListenTo {
		c := *s
		c.ViaListenTo = false
		if try(&c) {
			return true
		}
	}
	if s.SlowAt > 0 {
		c := *s
		c.SlowAt, c.SlowSlots = 0, 0
		if try(&c) {
			return true
		}
	}
	if s.InHelper.Burst > 0 {
		c := *s
		c.InHelper.Burst = 0
		if try(&c) {
			return true
		}
	}
	if s.Mix {
		c := *s
		c.Mix, c.ActiveSense, c.TimeCode, c.SysEx = false, false, false, false
		if try(&c) {
			return true
		}
	}
	simplify := func(mod func(c *CatSc) bool) bool {
		c := *s
		c.InOps = append([]CatOp{}, s.InOps...)
		c.OutOps = append([]CatOp{}, s.OutOps...)
		return mod(&c) && try(&c)
	}
	if simplify(func(c *CatSc) bool {
		ok := c.InHelper.StallLen != 0
		c.InHelper.StallAt, c.InHelper.StallLen = 0, 0
		return ok
	}) ||
		simplify(func(c *CatSc) bool { ok := c.InHelper.DieAt != 0; c.InHelper.DieAt = 0; return ok }) ||
		simplify(func(c *CatSc) bool {
			ok := c.OutHelper.StallLen != 0
			c.OutHelper.StallAt, c.OutHelper.StallLen = 0, 0
			return ok
		}) ||
		simplify(func(c *CatSc) bool { ok := c.OutHelper.DieAt != 0; c.OutHelper.DieAt = 0; return ok }) ||
		simplify(func(c *CatSc) bool { ok := len(c.InHelper.FailStarts) != 0; c.InHelper.FailStarts = nil; return ok }) ||
		simplify(func(c *CatSc) bool { ok := len(c.OutHelper.FailStarts) != 0; c.OutHelper.FailStarts = nil; return ok }) {
		return true
	}
	for i, op := range s.OutOps {
		if op.Op == "senders" && (op.N > 1 || op.M > 1) {
			if simplify(func(c *CatSc) bool { c.OutOps[i].N = 1; return op.N > 1 }) || simplify(func(c *CatSc) bool { c.OutOps[i].M = 1; return op.M > 1 }) {
				return true
			}
		}
	}
	for i, op := range s.InOps {
		if op.Op == "wait" && op.N > 1 {
			if simplify(func(c *CatSc) bool { c.InOps[i].N = 1; return true }) {
				return true
			}
		}
	}
	return false
}

// ---------------------------------------------------------------------------
// The simulated helper process.

var errStartFailed = errors.New("exec: \"midicat\": simulated start failure")

type helper struct {
	port    int    // port number (1 = the second port of its kind)
	kind    string // in | out
	cfg     HelperCfg
	cmd     *exec.Cmd
	killed  bool
	dead    bool
	actorID uint64
	// exited is closed when the simulated process has ended (died or was killed): what
	// (*os.Process).Wait blocks on
	exited    chan struct{}
	hasExited bool
	// the out helper's stdin between os/exec's copier and the process
	kbuf [kernelPipeSize + 32*1024]byte
	klen int
	keof bool
	gone bool
}

type world struct {
	sc        *CatSc
	inStarts  int
	outStart  int
	helpers   [64]*helper
	nHelpers  int
	nextRec   int64
	emitted   int // records the in helper has written (-1: it has finished its burst)
	callbacks int
}

// The harness keeps its own shared state out of the race detector's sight (norace
// accessors, no maps): actors are serialised by the fake clock, not by happens-before.
var curW *world

//go:norace
func setWorld(w *world) { curW = w }

//go:norace
func getWorld() *world { return curW }

//go:norace
func (w *world) addHelper(h *helper) {
	w.helpers[w.nHelpers] = h
	w.nHelpers++
}

//go:norace
func (w *world) findHelper(c *exec.Cmd) *helper {
	for i := 0; i < w.nHelpers; i++ {
		if w.helpers[i].cmd == c {
			return w.helpers[i]
		}
	}
	return nil
}

//go:norace
func (w *world) nextStart(kind string) int {
	if kind == "in" {
		w.inStarts++
		return w.inStarts - 1
	}
	w.outStart++
	return w.outStart - 1
}

//go:norace
func (h *helper) isKilled() bool { return h.killed }

//go:norace
func (h *helper) setKilled() { h.killed = true }

//go:norace
func (h *helper) setDead() { h.dead = true }

// exit marks the end of the simulated process (once).
//
//go:norace
func (h *helper) exit() {
	if !h.hasExited {
		h.hasExited = true
		close(h.exited)
	}
}

// recMsg is the unique message carried by record k.
func recMsg(k int64) []byte {
	return []byte{0x90 | byte(k>>14&0x0F), byte(k >> 7 & 0x7F), byte(k & 0x7F)}
}

func encodeLine(ts int32, msg []byte) []byte {
	return []byte(fmt.Sprintf("%d %s\n", ts, strings.ToUpper(fmt.Sprintf("%x", msg))))
}

var hooksInstalled bool

// listingOutput is what the helper answers to its short-lived invocations.
func listingOutput(c *exec.Cmd) ([]byte, bool) {
	joined := strings.Join(c.Args, " ")
	switch {
	case strings.Contains(joined, "version"):
		return []byte("0.6.9"), true
	case strings.Contains(joined, "ins --json"):
		return []byte(`{"0":"sim-in-0","1":"sim-in-1"}`), true
	case strings.Contains(joined, "outs --json"):
		return []byte(`{"0":"sim-out-0","1":"sim-out-1"}`), true
	}
	return nil, false
}

// installHooks installs the simulator's hooks once per process; they act on the world of
// the current run.
func installHooks() {
	if hooksInstalled {
		return
	}
	hooksInstalled = true
	midicatdrv.VerifInstall(midicatdrv.VerifHooks{
		Yield:  yield,
		Select: selectStart,
		Spawn:  spawn,
		Enter:  enter,
		Exit:   exit,
		Output: func(c *exec.Cmd) ([]byte, error) {
			if out, ok := listingOutput(c); ok {
				return out, nil
			}
			return nil, fmt.Errorf("unknown helper invocation %q", strings.Join(c.Args, " "))
		},
		CmdWait: func(c *exec.Cmd) error {
			if _, ok := listingOutput(c); ok {
				return nil
			}
			w := getWorld()
			if w == nil {
				return errors.New("exec: not started")
			}
			h := w.findHelper(c)
			if h == nil {
				return errors.New("exec: not started")
			}
			<-h.exited
			yield() // woken: re-enter the seeded schedule
			return nil
		},
		Start: func(c *exec.Cmd) error {
			// the short-lived invocations (version, port lists) started by hand instead of
			// through Output: the process writes its answer and ends
			if out, ok := listingOutput(c); ok {
				if c.Stdout != nil {
					c.Stdout.Write(out)
				}
				return nil
			}
			w := getWorld()
			kind := "in"
			if len(c.Args) > 1 && c.Args[1] == "out" {
				kind = "out"
			}
			cfg := w.sc.OutHelper
			if kind == "in" {
				cfg = w.sc.InHelper
			}
			tag := kind
			extraPort := false
			for _, a := range c.Args {
				if a == "--index=1" {
					extraPort = true
					tag = kind + "1"
				}
			}
			attempt := -1
			if !extraPort {
				attempt = w.nextStart(kind)
				for _, f := range cfg.FailStarts {
					if f == attempt {
						logEvent("helper-start-failed", int64(attempt), 0, kind)
						return errStartFailed
					}
				}
			} else {
				cfg.FailStarts, cfg.DieAt, cfg.StallLen = nil, 0, 0
			}
			h := &helper{kind: kind, cfg: cfg, cmd: c, exited: make(chan struct{})}
			if extraPort {
				h.port = 1
			}
			w.addHelper(h)
			logEvent("helper-start", int64(attempt), 0, tag)
			if kind == "in" {
				h.actorID = startThread(func() { w.runInHelper(h) })
			} else {
				startThread(func() { w.runOutCopier(h) })
				h.actorID = startThread(func() { w.runOutProcess(h) })
			}
			return nil
		},
		Kill: func(c *exec.Cmd) error {
			if h := getWorld().findHelper(c); h != nil {
				h.setKilled()
				logEvent("helper-kill", 0, 0, h.kind)
				// (os/exec does not close a Stdin/Stdout that is not a file: whoever writes to
				// the stdin of a killed process is on its own, see runOutHelper)
				h.exit()
			}
			return nil
		},
		ProcWait: func(c *exec.Cmd) {
			h := getWorld().findHelper(c)
			if h == nil {
				return
			}
			<-h.exited
			yield() // woken: re-enter the seeded schedule
		},
		HasProc: func(c *exec.Cmd) bool { return getWorld().findHelper(c) != nil },
	})
}

// runInHelper emits uniquely numbered records on the helper's stdout.
func (w *world) runInHelper(h *helper) {
	defer h.exit()
	out := h.cmd.Stdout
	if own, ok := out.(midicatdrv.VerifOwnedStdout); ok {
		// a pipe made by StdoutPipe: the end of the process is the end of the stream
		defer own.Close()
	}
	emitted := 0
	for {
		sleepSlots(1 + h.cfg.Gap)
		if h.isKilled() {
			return
		}
		if h.cfg.StallLen > 0 && emitted == h.cfg.StallAt {
			logEvent("helper-stall", int64(h.cfg.StallLen), 0, "in")
			sleepSlots(h.cfg.StallLen)
		}
		if (h.cfg.DieAt > 0 && emitted >= h.cfg.DieAt) || h.cfg.DieAt < 0 {
			logEvent("helper-died", 0, 0, "in")
			h.setDead()
			return // a dead helper just stops writing
		}
		k := w.takeRec()
		line := encodeLine(int32(k), w.sc.inRecMsg(k))
		logEvent("emit-start", k, int64(h.port), "")
		_, err := out.Write(line)
		if err != nil {
			logEvent("emit-failed", k, 0, err.Error())
			return
		}
		logEvent("emit-done", k, int64(h.port), "")
		emitted++
		w.setEmitted(emitted)
		max := 400
		if h.cfg.Burst > 0 {
			max = h.cfg.Burst
		}
		if emitted > max {
			w.setEmitted(-1)
			return
		}
	}
}

//go:norace
func (w *world) setEmitted(n int) { w.emitted = n }

//go:norace
func (w *world) emittedNow() int { return w.emitted }

// bumpCallbacks counts the listener calls of the run.
//
//go:norace
func (w *world) bumpCallbacks() int { w.callbacks++; return w.callbacks }

//go:norace
func (w *world) callbacksNow() int { return w.callbacks }

//go:norace
func (w *world) takeRec() int64 {
	w.nextRec++
	return w.nextRec
}

// The out helper: a process that reads lines from its stdin.
//
// What a real process looks like from the driver's side, with cmd.Stdin set to something that
// is not a file (the driver uses an io.Pipe): os/exec copies from it into an OS pipe in a
// goroutine of its own (32 KiB reads: whatever one Write hands over is taken in one piece, so
// a line written with one Write call is never seen in parts, whereas a line written in
// several calls can be cut or interleaved), and the kernel buffers that pipe (64 KiB): Send
// returns long before the process has acted on the line. When the process has ended, the
// copying goroutine still takes whatever is written next, fails to pass it on and ends -
// without closing cmd.Stdin; from then on nobody reads the pipe any more. What sits in the
// kernel buffer when the process is killed is gone. A process whose stdin reaches its end
// works off what is buffered and ends by itself (that is what `midicat out` does).
// (All of this was checked against real child processes: first write after a death returns
// nil, the second blocks for good; 2000 Sends followed at once by Close: 11..232 arrive.)
//
// Two actors share the kernel buffer: runOutCopier and runOutProcess.
const kernelPipeSize = 64 * 1024

// (The buffer is a fixed array moved byte by byte: append, copy and string conversions call
// into the runtime, which reports to the race detector whatever the caller's annotation is.)
//
//go:norace
func (h *helper) kput(b []byte) bool {
	if h.klen+len(b) > kernelPipeSize && h.klen > 0 {
		return false
	}
	if h.klen+len(b) > len(h.kbuf) {
		return false
	}
	for i := 0; i < len(b); i++ {
		h.kbuf[h.klen+i] = b[i]
	}
	h.klen += len(b)
	return true
}

// ktakeLine removes the first complete line from the kernel buffer.
//
//go:norace
func (h *helper) ktakeLine() (string, bool) {
	n := -1
	for i := 0; i < h.klen; i++ {
		if h.kbuf[i] == '\n' {
			n = i
			break
		}
	}
	if n < 0 {
		return "", false
	}
	return h.kshift(n, 1), true
}

// kshift removes n bytes (plus skip) from the front and returns the n bytes.
//
//go:norace
func (h *helper) kshift(n, skip int) string {
	l := make([]byte, n)
	for i := 0; i < n; i++ {
		l[i] = h.kbuf[i]
	}
	rest := h.klen - n - skip
	for i := 0; i < rest; i++ {
		h.kbuf[i] = h.kbuf[n+skip+i]
	}
	h.klen = rest
	return string(l)
}

//go:norace
func (h *helper) krest() string { return h.kshift(h.klen, 0) }

//go:norace
func (h *helper) setEOF() { h.keof = true }

//go:norace
func (h *helper) atEOF() bool { return h.keof }

//go:norace
func (h *helper) setGone() { h.gone = true }

//go:norace
func (h *helper) isGone() bool { return h.gone || h.killed }

// runOutCopier is os/exec's goroutine that feeds the stdin of the process.
func (w *world) runOutCopier(h *helper) {
	in := h.cmd.Stdin
	_, owned := in.(midicatdrv.VerifOwnedStdin) // made by StdinPipe: the pipe itself is the process's stdin
	buf := make([]byte, 32*1024)
	for {
		n, err := in.Read(buf)
		if h.isGone() {
			if n > 0 {
				// the process has ended: this write is taken and goes nowhere
				logEvent("helper-dropped", int64(n), 0, "out")
			}
			return
		}
		if n > 0 {
			for !h.kput(buf[:n]) {
				yield() // the kernel buffer is full: the writer has to wait
				if h.isGone() {
					logEvent("helper-dropped", int64(n), 0, "out")
					return
				}
			}
		}
		if err != nil {
			h.setEOF()
			return
		}
		_ = owned
		yield()
	}
}

// runOutProcess is the process itself: it takes line after line from its stdin.
func (w *world) runOutProcess(h *helper) {
	lines := 0
	end := func(lostAs string) {
		h.setGone()
		for {
			l, ok := h.ktakeLine()
			if !ok {
				break
			}
			logEvent(lostAs, 0, 0, l)
		}
		h.krest()
		h.exit()
		if own, ok := h.cmd.Stdin.(midicatdrv.VerifOwnedStdin); ok {
			// a pipe made by StdinPipe goes away with the process: writers get an error
			own.Close()
		}
	}
	for {
		if h.isKilled() {
			// killed: what it had not read yet is gone with it
			end("helper-line-lost-at-kill")
			return
		}
		if h.cfg.DieAt < 0 {
			// the process ends as soon as it has been started (crash fault)
			logEvent("helper-died", 0, 0, "out")
			h.setDead()
			end("helper-line-lost-in-dead-process")
			return
		}
		if h.cfg.Gap > 0 {
			sleepSlots(h.cfg.Gap)
		}
		if h.cfg.StallLen > 0 && lines == h.cfg.StallAt {
			logEvent("helper-stall", int64(h.cfg.StallLen), 0, "out")
			sleepSlots(h.cfg.StallLen)
			lines = -1 << 30 // stall once
		}
		if h.isKilled() {
			end("helper-line-lost-at-kill")
			return
		}
		l, ok := h.ktakeLine()
		if !ok {
			if h.atEOF() {
				// end of input: the process ends by itself
				if rest := h.krest(); rest != "" {
					logEvent("helper-partial", 0, 0, rest)
				}
				logEvent("helper-exits-at-end-of-input", 0, 0, "out")
				end("helper-line-lost-at-kill")
				return
			}
			yield()
			continue
		}
		logEvent("helper-line", 0, 0, l)
		lines++
		if h.cfg.DieAt > 0 && lines == h.cfg.DieAt {
			// the helper dies (crash fault): what it had buffered dies with it
			logEvent("helper-died", 0, 0, "out")
			h.setDead()
			end("helper-line-lost-in-dead-process")
			return
		}
		yield()
	}
}

// ---------------------------------------------------------------------------
// Running a scenario.

const callBudget = 160000 * K // fake time a lifecycle call may take (approx. 10.5 s): "blocks forever" is decided far above any bounded wait

type callRec struct {
	thread string
	idx    int
	op     string
	start  int64
	end    int64 // 0 = did not return
	err    error
	info   int64
}

type runOut struct {
	events  []event
	calls   []callRec
	timeout bool
	pan     string
	simTime int64
	sig     uint64
	yields  int64
}

//go:norace
func appendCall(dst *[]callRec, n *int, c callRec) int {
	(*dst)[*n] = c
	*n++
	return *n - 1
}

// pendingSince returns the start time of the oldest call that has not returned (0 = none).
//
//go:norace
func pendingSince(dst *[]callRec, n *int) int64 {
	var oldest int64
	for i := 0; i < *n; i++ {
		if (*dst)[i].end == 0 && ((*dst)[i].start < oldest || oldest == 0) {
			oldest = (*dst)[i].start
		}
	}
	return oldest
}

//go:norace
func finishCall(dst *[]callRec, i int, err error, info int64) {
	(*dst)[i].end = now()
	(*dst)[i].err = err
	(*dst)[i].info = info
}

func (s *CatSc) execute(env *core.Env) (ro runOut) {
	calls := make([]callRec, 4096)
	nCalls := 0
	body := func(t *testing.T) {
		simReset(s.SchedSeed)
		w := &world{sc: s}
		setWorld(w)
		registerRoot()
		installHooks()
		drv, err := midicatdrv.New()
		if err != nil {
			logEvent("driver-unusable", 0, 0, "New: "+err.Error())
			return
		}
		ins, err := drv.Ins()
		if err != nil {
			logEvent("driver-unusable", 0, 0, "Ins: "+err.Error())
			return
		}
		outs, err := drv.Outs()
		if err != nil {
			logEvent("driver-unusable", 0, 0, "Outs: "+err.Error())
			return
		}
		// ports are addressed by their number, not by their position in the list
		byNumIn := func(l []drivers.In) []drivers.In {
			out := make([]drivers.In, len(l))
			for _, p := range l {
				if p.Number() >= 0 && p.Number() < len(l) {
					out[p.Number()] = p
				}
			}
			return out
		}
		byNumOut := func(l []drivers.Out) []drivers.Out {
			out := make([]drivers.Out, len(l))
			for _, p := range l {
				if p.Number() >= 0 && p.Number() < len(l) {
					out[p.Number()] = p
				}
			}
			return out
		}
		ins, outs = byNumIn(ins), byNumOut(outs)
		for _, p := range ins {
			if p == nil {
				logEvent("driver-unusable", 0, 0, "Ins does not list the in ports 0..n-1 the helper reports")
				return
			}
		}
		for _, p := range outs {
			if p == nil {
				logEvent("driver-unusable", 0, 0, "Outs does not list the out ports 0..n-1 the helper reports")
				return
			}
		}
		if len(ins) < 2 || len(outs) < 2 {
			logEvent("driver-unusable", 0, 0, fmt.Sprintf("the helper reports 2 in and 2 out ports, the driver lists %d and %d", len(ins), len(outs)))
			return
		}
		var threads []uint64
		do := func(thread string, idx int, op string, f func() (error, int64)) {
			i := appendCall(&calls, &nCalls, callRec{thread: thread, idx: idx, op: op, start: now()})
			logEvent("call", int64(idx), 0, thread+":"+op)
			err, info := f()
			finishCall(&calls, i, err, info)
			es := ""
			if err != nil {
				es = err.Error()
			}
			logEvent("return", int64(idx), info, thread+":"+op+":"+es)
		}
		if len(s.InOps) > 0 {
			in := ins[0]
			threads = append(threads, startThread(func() {
				var stops []func()
				nListen := int64(0)
				if s.Extra && len(ins) > 1 {
					do("in", -1, "open-extra", func() (error, int64) { return ins[1].Open(), 0 })
					defer func() {
						do("in", -2, "close-extra", func() (error, int64) { return ins[1].Close(), 0 })
					}()
					if len(s.OutOps) == 0 && len(outs) > 1 {
						// no out thread: this thread also holds the second out port (three open ports on one driver)
						do("in", -3, "open-extra", func() (error, int64) { return outs[1].Open(), 0 })
						defer func() {
							do("in", -4, "close-extra", func() (error, int64) { return outs[1].Close(), 0 })
						}()
					}
				}
				// the stalled consumer: one callback that stays away for a while (it sleeps a
				// multiple of the slot length, so it wakes in its own slot, and yields at once)
				slow := func(j int64) {
					if n := w.bumpCallbacks(); s.SlowAt > 0 && n == s.SlowAt {
						logEvent("slow-callback", int64(s.SlowSlots), 0, "")
						time.Sleep(time.Duration(int64(s.SlowSlots) * K))
						yield()
						logEvent("callback-returns", j, 0, "")
					}
				}
				for i, op := range s.InOps {
					switch op.Op {
					case "drain":
						// until the helper has written its burst and no callback has been seen for
						// a good while (bounded)
						idle, lastN := 0, -1
						for round := 0; round < 4000 && idle < 8; round++ {
							sleepSlots(40)
							if n := w.callbacksNow(); w.emittedNow() < 0 && n == lastN {
								idle++
							} else {
								idle, lastN = 0, n
							}
						}
					case "open":
						do("in", i, "open", func() (error, int64) { return in.Open(), 0 })
					case "listen":
						nListen++
						j := nListen
						do("in", i, "listen", func() (error, int64) {
							var stop func()
							var err error
							as, tc, sx := s.ActiveSense, s.TimeCode, s.SysEx
							if op.M == 1 {
								as, tc, sx = !as, !tc, !sx
							}
							if s.ViaListenTo {
								var o []midi.Option
								if as {
									o = append(o, midi.UseActiveSense())
								}
								if tc {
									o = append(o, midi.UseTimeCode())
								}
								if sx {
									o = append(o, midi.UseSysEx())
								}
								stop, err = midi.ListenTo(in, func(m midi.Message, ms int32) {
									logEvent("callback", j, int64(ms), string(m))
									slow(j)
								}, o...)
							} else {
								stop, err = in.Listen(func(b []byte, ms int32) {
									logEvent("callback", j, int64(ms), string(b))
									slow(j)
								}, drivers.ListenConfig{ActiveSense: as, TimeCode: tc, SysEx: sx})
							}
							if err == nil {
								stops = append(stops, stop)
							} else {
								stops = append(stops, nil)
							}
							return err, j
						})
					case "stop":
						// the stop function of the N-th latest successful Listen
						k, cnt := -1, 0
						for q := len(stops) - 1; q >= 0; q-- {
							if stops[q] != nil {
								if cnt == op.N {
									k = q
									break
								}
								cnt++
							}
						}
						if k < 0 {
							continue
						}
						do("in", i, "stop", func() (error, int64) { stops[k](); return nil, int64(k + 1) })
					case "wait":
						sleepSlots(op.N)
					case "close":
						do("in", i, "close", func() (error, int64) { return in.Close(), 0 })
					case "driverclose":
						do("in", i, "driverclose", func() (error, int64) { return drv.Close(), 0 })
						if s.Extra && len(ins) > 1 {
							open := int64(0)
							if ins[1].IsOpen() {
								open = 1
							}
							logEvent("extra-after-driverclose", open, 0, "in1")
							if len(s.OutOps) == 0 && len(outs) > 1 {
								open = 0
								if outs[1].IsOpen() {
									open = 1
								}
								logEvent("extra-after-driverclose", open, 0, "out1")
							}
							open = 0
							if in.IsOpen() {
								open = 1
							}
							logEvent("extra-after-driverclose", open, 0, "in0")
						}
					}
				}
			}))
		}
		if len(s.OutOps) > 0 {
			out := outs[0]
			threads = append(threads, startThread(func() {
				var senders []uint64
				msgNo := int64(0)
				if s.Extra && len(outs) > 1 {
					do("out", -1, "open-extra", func() (error, int64) { return outs[1].Open(), 0 })
					defer func() {
						do("out", -2, "close-extra", func() (error, int64) { return outs[1].Close(), 0 })
					}()
				}
				for i, op := range s.OutOps {
					switch op.Op {
					case "open":
						do("out", i, "open", func() (error, int64) { return out.Open(), 0 })
					case "send":
						msgNo++
						k := int64(200)<<8 + msgNo
						do("out", i, "send", func() (error, int64) { return out.Send(recMsg(k)), k })
					case "senders":
						for sn := 0; sn < op.N; sn++ {
							sn := sn
							base := int64(i*4+sn+1) << 8
							senders = append(senders, startThread(func() {
								for m := 0; m < op.M; m++ {
									k := base + int64(m)
									if s.Extra && len(outs) > 1 && sn%2 == 1 {
										// this sender uses the second out port (another port object, another helper)
										do(fmt.Sprintf("sender-%d-%d", i, sn), m, "send-extra", func() (error, int64) { return outs[1].Send(recMsg(k)), k })
									} else {
										do(fmt.Sprintf("sender-%d-%d", i, sn), m, "send", func() (error, int64) { return out.Send(recMsg(k)), k })
									}
									yield()
								}
							}))
						}
					case "join":
						for {
							all := true
							for _, id := range senders {
								if !actorDone(id) {
									all = false
								}
							}
							if all {
								break
							}
							yield()
						}
						senders = nil
					case "wait":
						sleepSlots(op.N)
					case "close":
						do("out", i, "close", func() (error, int64) { return out.Close(), 0 })
					case "driverclose":
						do("out", i, "driverclose", func() (error, int64) { return drv.Close(), 0 })
						if s.Extra && len(outs) > 1 {
							open := int64(0)
							if outs[1].IsOpen() {
								open = 1
							}
							logEvent("extra-after-driverclose", open, 0, "out1")
						}
					}
				}
				// sender threads still running keep sending against the closed port
				for {
					all := true
					for _, id := range senders {
						if !actorDone(id) {
							all = false
						}
					}
					if all {
						break
					}
					yield()
				}
			}))
		}
		for o := 0; o < s.Observers; o++ {
			startThread(func() {
				for i := 0; i < 40; i++ {
					if len(s.InOps) > 0 {
						if ins[0].IsOpen() {
							logEvent("observe", 1, 0, "in")
						}
						_ = ins[0].String()
						_ = ins[0].Number()
					}
					if len(s.OutOps) > 0 {
						if outs[0].IsOpen() {
							logEvent("observe", 1, 0, "out")
						}
						_ = outs[0].String()
					}
					sleepSlots(3)
				}
			})
		}
		// the root waits in fake time for the lifecycle threads, with a watchdog
		limit := now() + int64(len(s.InOps)+len(s.OutOps)+4)*callBudget
		for {
			if p := pendingSince(&calls, &nCalls); p != 0 && now()-p > callBudget+callBudget/4 {
				break // a call is stuck: no need to wait for the others
			}
			all := true
			for _, id := range threads {
				if !actorDone(id) {
					all = false
				}
			}
			if all {
				break
			}
			if now() > limit {
				ro.timeout = true
				break
			}
			sleepSlots(8)
		}
		ro.simTime = now()
		// let everything that still polls run off the stage
		setShutdown()
		time.Sleep(time.Duration(K * GMax * 8))
	}
	func() {
		defer func() {
			if p := recover(); p != nil {
				msg := fmt.Sprint(p)
				// leftover durably blocked goroutines at the end of the bubble are expected
				// (a reader goroutine parked on a pipe nobody writes to any more)
				if !strings.Contains(msg, "deadlock") && !strings.Contains(msg, "blocked") {
					ro.pan = msg
				}
			}
		}()
		synctest.Test(env.T, body)
	}()
	ro.events = snapshotEvents()
	ro.calls = calls[:nCalls]
	ro.sig, ro.yields = schedSignature()
	return ro
}
