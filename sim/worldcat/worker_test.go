package worldcat

import (
	"testing"

	"verif/sim/core"
)

func TestWorker(t *testing.T) { core.WorkerMain(t, Worlds, nil) }
