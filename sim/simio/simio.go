// Package simio is the simulated disk / transport the library reads from and writes to.
// Only legal io.Reader / io.Writer behaviour is produced: a Read returns at least one byte
// or an error; a Write that accepts fewer bytes than given returns a non-nil error.
package simio

import (
	"errors"
	"io"
)

var ErrInjected = errors.New("simio: injected I/O error")

// FragReader delivers data according to an explicit fragment schedule.
type FragReader struct {
	Data    []byte
	Frags   []int // sizes of successive Read results (>=1); after the list is used up: whatever fits
	EOFWith bool  // deliver io.EOF together with the last bytes
	pos     int
	fi      int
	Reads   int
}

func (r *FragReader) Read(p []byte) (int, error) {
	r.Reads++
	if len(p) == 0 {
		return 0, nil
	}
	if r.pos >= len(r.Data) {
		return 0, io.EOF
	}
	n := len(r.Data) - r.pos
	if r.fi < len(r.Frags) {
		// a fragment that the caller's buffer cannot take whole is carried over
		if r.Frags[r.fi] < n {
			n = r.Frags[r.fi]
		}
	}
	if n > len(p) {
		n = len(p)
	}
	if n < 1 {
		n = 1
	}
	copy(p, r.Data[r.pos:r.pos+n])
	r.pos += n
	if r.fi < len(r.Frags) {
		r.Frags[r.fi] -= n
		if r.Frags[r.fi] <= 0 {
			r.fi++
		}
	}
	if r.pos >= len(r.Data) && r.EOFWith {
		return n, io.EOF
	}
	return n, nil
}

func (r *FragReader) Pos() int { return r.pos }

// FailReader delivers the first K bytes of Data (in reads of at most Max bytes; 0 = no cap),
// then fails with a sticky non-EOF error. If WithData is set the last good bytes are
// returned together with the error in one call (legal: n>0 and err!=nil).
type FailReader struct {
	Data     []byte
	K        int
	Max      int
	WithData bool
	pos      int
	Failed   bool
	Consumed int   // bytes handed out
	Err      error // the error to fail with (default ErrInjected)
}

func (r *FailReader) err() error {
	if r.Err != nil {
		return r.Err
	}
	return ErrInjected
}

func (r *FailReader) Read(p []byte) (int, error) {
	if len(p) == 0 {
		return 0, nil
	}
	if r.Failed {
		return 0, r.err()
	}
	limit := r.K
	if limit > len(r.Data) {
		limit = len(r.Data)
	}
	if r.pos >= limit {
		if r.K >= len(r.Data) {
			return 0, io.EOF
		}
		r.Failed = true
		return 0, r.err()
	}
	n := limit - r.pos
	if n > len(p) {
		n = len(p)
	}
	if r.Max > 0 && n > r.Max {
		n = r.Max
	}
	copy(p, r.Data[r.pos:r.pos+n])
	r.pos += n
	r.Consumed = r.pos
	if r.pos >= limit && r.K < len(r.Data) && r.WithData {
		r.Failed = true
		return n, r.err()
	}
	return n, nil
}

// CountReader counts how many bytes a fault-free read consumes.
type CountReader struct {
	R io.Reader
	N int
}

func (c *CountReader) Read(p []byte) (int, error) {
	n, err := c.R.Read(p)
	c.N += n
	return n, err
}

// Disk is the simulated destination of a write. It accepts at most Limit bytes in total
// (Limit<0: unlimited) and then fails, sticky. Short selects the legal short write
// (accept what fits, return n<len(p) with an error) over (0, err).
// Whatever it accepted is what "the disk holds" after a crash at that point.
type Disk struct {
	Limit  int
	Short  bool
	Stored []byte
	Calls  []int // length of every Write call seen
	Failed bool
	Fails  int
	Err    error // the error to fail with (default ErrInjected)
	// Transient: only the one Write that crosses Limit fails (a destination that recovers,
	// e.g. after EAGAIN or EINTR); later writes are accepted again.
	Transient bool
}

func (d *Disk) err() error {
	if d.Err != nil {
		return d.Err
	}
	return ErrInjected
}

func (d *Disk) Write(p []byte) (int, error) {
	d.Calls = append(d.Calls, len(p))
	if d.Failed && !d.Transient {
		d.Fails++
		return 0, d.err()
	}
	if d.Limit < 0 || len(d.Stored)+len(p) <= d.Limit || (d.Failed && d.Transient) {
		d.Stored = append(d.Stored, p...)
		return len(p), nil
	}
	d.Failed = true
	d.Fails++
	if d.Short {
		n := d.Limit - len(d.Stored)
		d.Stored = append(d.Stored, p[:n]...)
		return n, d.err()
	}
	return 0, d.err()
}
