// Package core holds what every world shares: the seeded PRNG (the only source
// of choice in a run), violation records, evidence accumulators and the shrink loop.
package core

// Rand is a splitmix64 generator. One run derives everything from one value.
type Rand struct{ s uint64 }

func Mix(a, b uint64) uint64 {
	z := a + 0x9E3779B97F4A7C15*(b+1)
	z = (z ^ (z >> 30)) * 0xBF58476D1CE4E5B9
	z = (z ^ (z >> 27)) * 0x94D049BB133111EB
	return z ^ (z >> 31)
}

func NewRand(seed uint64) *Rand { return &Rand{s: Mix(seed, 0x5eed)} }

// Sub derives an independent stream (per actor, per phase) that does not depend on
// how many values the parent has drawn so far.
func (r *Rand) Sub(id uint64) *Rand { return &Rand{s: Mix(r.s, id^0xabcdef)} }

func (r *Rand) Uint64() uint64 {
	r.s += 0x9E3779B97F4A7C15
	z := r.s
	z = (z ^ (z >> 30)) * 0xBF58476D1CE4E5B9
	z = (z ^ (z >> 27)) * 0x94D049BB133111EB
	return z ^ (z >> 31)
}

// Intn returns a value in [0,n). n<=0 returns 0.
func (r *Rand) Intn(n int) int {
	if n <= 1 {
		return 0
	}
	return int(r.Uint64() % uint64(n))
}

// Range returns a value in [lo,hi].
func (r *Rand) Range(lo, hi int) int {
	if hi <= lo {
		return lo
	}
	return lo + r.Intn(hi-lo+1)
}

func (r *Rand) Bool() bool { return r.Uint64()&1 == 1 }

// Chance returns true with probability num/den.
func (r *Rand) Chance(num, den int) bool { return r.Intn(den) < num }

func (r *Rand) Byte() byte { return byte(r.Uint64()) }

func (r *Rand) Bytes(n int) []byte {
	b := make([]byte, n)
	for i := range b {
		b[i] = r.Byte()
	}
	return b
}

// Data7 returns n bytes below 0x80.
func (r *Rand) Data7(n int) []byte {
	b := make([]byte, n)
	for i := range b {
		b[i] = r.Byte() & 0x7f
	}
	return b
}

// PickInt picks one of the values.
func (r *Rand) PickInt(v ...int) int { return v[r.Intn(len(v))] }

// PickU32 picks one of the values.
func (r *Rand) PickU32(v ...uint32) uint32 { return v[r.Intn(len(v))] }

// Weighted returns index i with probability w[i]/sum(w).
func (r *Rand) Weighted(w ...int) int {
	t := 0
	for _, x := range w {
		t += x
	}
	k := r.Intn(t)
	for i, x := range w {
		if k < x {
			return i
		}
		k -= x
	}
	return len(w) - 1
}

// Partition cuts n items into chunks of size>=1 (returns the sizes). mode: 0 whole,
// 1 all ones, 2 random small, 3 random mixed.
func (r *Rand) Partition(n int, mode int) []int {
	if n <= 0 {
		return nil
	}
	var out []int
	switch mode {
	case 0:
		return []int{n}
	case 1:
		for i := 0; i < n; i++ {
			out = append(out, 1)
		}
		return out
	}
	left := n
	for left > 0 {
		var k int
		if mode == 2 {
			k = r.Range(1, 3)
		} else {
			switch r.Intn(4) {
			case 0:
				k = 1
			case 1:
				k = r.Range(1, 4)
			case 2:
				k = r.Range(1, 16)
			default:
				k = r.Range(1, left)
			}
		}
		if k > left {
			k = left
		}
		out = append(out, k)
		left -= k
	}
	return out
}

// FNV-1a 64 for fingerprints.
type Hash uint64

func NewHash() Hash { return 14695981039346656037 }
func (h Hash) Byte(b byte) Hash {
	return (h ^ Hash(b)) * 1099511628211
}
func (h Hash) Bytes(b []byte) Hash {
	for _, x := range b {
		h = h.Byte(x)
	}
	return h.Byte(0xff)
}
func (h Hash) Str(s string) Hash { return h.Bytes([]byte(s)) }
func (h Hash) U64(v uint64) Hash {
	for i := 0; i < 8; i++ {
		h = h.Byte(byte(v >> (8 * i)))
	}
	return h
}
func (h Hash) Int(v int) Hash { return h.U64(uint64(v)) }
