package core

import (
	"encoding/json"
	"fmt"
	"sort"
	"testing"
	"time"
)

// Env carries what a scenario needs from the process it runs in.
type Env struct {
	T    *testing.T // for testing/synctest bubbles
	Tier string     // quick | thorough
	// Progress, if set, is told which scenario is about to be executed (also during
	// shrinking), so that a process that dies mid-run (race detector, crash in a library
	// goroutine) can be attributed to the exact scenario.
	Progress func(sc Scenario)
}

// Violation is one failed oracle clause. Clause names the sentence of the property,
// Key is a structural fingerprint of the failing situation (used to match known findings
// and to deduplicate), Detail is free text (expected vs got).
type Violation struct {
	Clause string `json:"clause"`
	Key    string `json:"key"`
	Detail string `json:"detail"`
}

func V(clause, key, format string, a ...any) Violation {
	return Violation{Clause: clause, Key: key, Detail: fmt.Sprintf(format, a...)}
}

// Scenario is an explicit, self-contained description of one simulated run: operations,
// faults and schedule are literal values, so replay does not depend on any generator.
type Scenario interface {
	// Run executes the scenario against the real code and evaluates the oracles.
	// It is a pure function of the scenario and the code. st may be nil.
	Run(env *Env, st *Stats) []Violation
	// Shrinks proposes smaller scenarios; try returns true if the candidate was accepted
	// (still fails the same clause), in which case Shrinks returns true at once.
	Shrinks(try func(Scenario) bool) bool
	// Size is a rough size measure (ops + faults) used for reporting.
	Size() int
}

// World generates and decodes scenarios for one property.
type World interface {
	Gen(seed uint64, tier string) Scenario
	Decode(raw json.RawMessage) (Scenario, error)
}

// Stats accumulates evidence. All methods are nil-safe so that shrinking can run
// without polluting the counts.
type Stats struct {
	Runs        int64            `json:"runs"`
	Evaluations int64            `json:"evaluations"`
	Faults      map[string]int64 `json:"faults_fired"`
	Regions     map[string]int64 `json:"regions"`
	Probes      map[string]int64 `json:"probes"`
	Reach       map[string]int64 `json:"reach"`
	SimTimeNs   int64            `json:"sim_time_ns"`
	Samples     []any            `json:"samples"`
	fp          map[uint64]struct{}
	logOn       bool
	logH        Hash
}

func NewStats() *Stats {
	return &Stats{Faults: map[string]int64{}, Regions: map[string]int64{}, Probes: map[string]int64{},
		Reach: map[string]int64{}, fp: map[uint64]struct{}{}}
}

func (s *Stats) Eval(n int64) {
	if s != nil {
		s.Evaluations += n
	}
}
func (s *Stats) Fault(kind string) {
	if s != nil {
		s.Faults[kind]++
	}
}
func (s *Stats) FaultN(kind string, n int64) {
	if s != nil && n != 0 {
		s.Faults[kind] += n
	}
}
func (s *Stats) Region(r string) {
	if s != nil {
		s.Regions[r]++
	}
}
func (s *Stats) Probe(p string) {
	if s != nil {
		s.Probes[p]++
	}
}
func (s *Stats) ProbeIf(c bool, p string) {
	if s != nil && c {
		s.Probes[p]++
	}
}
func (s *Stats) ReachKey(k string) {
	if s != nil {
		s.Reach[k]++
	}
}
func (s *Stats) SimTime(d time.Duration) {
	if s != nil {
		s.SimTimeNs += int64(d)
	}
}

// Distinct records the fingerprint of a non-trivial case.
func (s *Stats) Distinct(h Hash) {
	if s != nil {
		s.fp[uint64(h)] = struct{}{}
	}
}
func (s *Stats) Sample(v any) {
	if s != nil && len(s.Samples) < 3 {
		s.Samples = append(s.Samples, v)
	}
}
func (s *Stats) Fingerprints() []uint64 {
	out := make([]uint64, 0, len(s.fp))
	for k := range s.fp {
		out = append(out, k)
	}
	sort.Slice(out, func(i, j int) bool { return out[i] < out[j] })
	return out
}

// Found is a violation together with the (minimised) scenario that produces it.
type Found struct {
	Violation
	Seed     uint64          `json:"seed"`
	Run      int64           `json:"run"`
	Scenario json.RawMessage `json:"scenario"`
	FromSize int             `json:"minimised_from"`
	ToSize   int             `json:"minimised_to"`
}

// HasClause reports whether vs contains the clause (and key, if key != "").
func HasClause(vs []Violation, clause, key string) *Violation {
	for i := range vs {
		if vs[i].Clause == clause && (key == "" || vs[i].Key == key) {
			return &vs[i]
		}
	}
	return nil
}

// SafeRun runs the scenario and converts a panic of the harness/scenario itself into a
// violation-like record with clause "harness-panic" (the driver maps that to exit 2).
func SafeRun(env *Env, sc Scenario, st *Stats) (vs []Violation) {
	if env != nil && env.Progress != nil {
		env.Progress(sc)
	}
	defer func() {
		if r := recover(); r != nil {
			vs = append(vs, V("harness-panic", "panic", "%v", r))
		}
	}()
	return sc.Run(env, st)
}

// Minimise shrinks sc greedily while the same clause (and key) keeps failing.
func Minimise(env *Env, sc Scenario, clause, key string, maxTries int, deadline time.Time) Scenario {
	tries := 0
	shrinkOver = func() bool { return tries >= maxTries || time.Now().After(deadline) }
	defer func() { shrinkOver = func() bool { return false } }()
	for {
		progressed := sc.Shrinks(func(c Scenario) bool {
			if tries >= maxTries || time.Now().After(deadline) {
				return false
			}
			tries++
			if HasClause(SafeRun(env, c, nil), clause, key) != nil {
				sc = c
				return true
			}
			return false
		})
		if !progressed || tries >= maxTries || time.Now().After(deadline) {
			return sc
		}
	}
}

// ShrinkList tries to remove runs of elements from a list: halves, quarters, ... singles.
// mk builds a candidate scenario from the reduced list.
// shrinkOver tells candidate generators that the shrinking budget is used up, so that
// they stop building candidates nobody will run (a list of 45 000 events has 90 000
// candidates of megabytes each).
var shrinkOver = func() bool { return false }

// ShrinkOver reports whether the current minimisation has used up its budget.
func ShrinkOver() bool { return shrinkOver() }

func ShrinkList[T any](list []T, try func([]T) bool) bool {
	n := len(list)
	if n == 0 {
		return false
	}
	for size := n; size >= 1; size /= 2 {
		for start := 0; start+size <= n; start += size {
			if shrinkOver() {
				return false
			}
			cand := make([]T, 0, n-size)
			cand = append(cand, list[:start]...)
			cand = append(cand, list[start+size:]...)
			if try(cand) {
				return true
			}
		}
		if size == 1 {
			break
		}
	}
	return false
}

// Hex is a byte slice that marshals as a hex string.
type Hex []byte

func (h Hex) MarshalJSON() ([]byte, error) {
	const d = "0123456789ABCDEF"
	out := make([]byte, 0, 2+2*len(h))
	out = append(out, '"')
	for _, b := range h {
		out = append(out, d[b>>4], d[b&15])
	}
	out = append(out, '"')
	return out, nil
}

func (h *Hex) UnmarshalJSON(b []byte) error {
	if len(b) < 2 || b[0] != '"' || b[len(b)-1] != '"' {
		return fmt.Errorf("hex: not a string")
	}
	b = b[1 : len(b)-1]
	if len(b)%2 != 0 {
		return fmt.Errorf("hex: odd length")
	}
	out := make([]byte, len(b)/2)
	for i := range out {
		hi, ok1 := unhex(b[2*i])
		lo, ok2 := unhex(b[2*i+1])
		if !ok1 || !ok2 {
			return fmt.Errorf("hex: bad digit")
		}
		out[i] = hi<<4 | lo
	}
	*h = out
	return nil
}

func unhex(c byte) (byte, bool) {
	switch {
	case c >= '0' && c <= '9':
		return c - '0', true
	case c >= 'A' && c <= 'F':
		return c - 'A' + 10, true
	case c >= 'a' && c <= 'f':
		return c - 'a' + 10, true
	}
	return 0, false
}

func HexStr(b []byte) string {
	j, _ := Hex(b).MarshalJSON()
	return string(j[1 : len(j)-1])
}

// Trunc shortens long strings for details.
func Trunc(s string, n int) string {
	if len(s) <= n {
		return s
	}
	return s[:n] + fmt.Sprintf("…(+%d)", len(s)-n)
}

// EnableLog switches on the per-run event-log digest used by the determinism self-test.
func (s *Stats) EnableLog() { s.logOn = true; s.logH = NewHash() }

// Log mixes one event line into the run's digest. It never draws from a PRNG and never
// reads a clock.
func (s *Stats) Log(format string, a ...any) {
	if s != nil && s.logOn {
		s.logH = s.logH.Str(fmt.Sprintf(format, a...))
	}
}
func (s *Stats) LogHash() Hash { return s.logH }
