package core

import (
	"encoding/json"
	"fmt"
	"os"
	"testing"
	"time"
)

// Job is what the driver hands to one worker process (path in env VERIF_JOB).
type Job struct {
	Property string `json:"property"`
	Tier     string `json:"tier"`
	Mode     string `json:"mode"` // explore | replay | hashes
	Seed     uint64 `json:"seed"` // VERIF_SEED
	From     int64  `json:"from"` // run indices From, From+Stride, ... < To
	To       int64  `json:"to"`
	Stride   int64  `json:"stride"`
	Deadline int64  `json:"deadline_unix"` // wall-clock cap (safety only)
	Out      string `json:"out"`
	Replay   string `json:"replay"` // replay mode: scenario file
	MaxFound int    `json:"max_found"`
	Worker   int    `json:"worker"`
	Progress string `json:"progress,omitempty"` // file that receives the index of the run in progress
}

// Result is what a worker writes to Job.Out.
type Result struct {
	Property     string                    `json:"property"`
	Stats        *Stats                    `json:"stats"`
	Fingerprints []uint64                  `json:"fingerprints"`
	Found        []Found                   `json:"found"`
	CapHit       bool                      `json:"cap_hit"`
	Stopped      string                    `json:"stopped,omitempty"`
	RunHashes    map[int64]uint64          `json:"run_hashes,omitempty"`
	Scenarios    map[int64]json.RawMessage `json:"scenarios,omitempty"`
	Sizes        map[int64]int             `json:"sizes,omitempty"`
	WallS        float64                   `json:"wall_s"`
	Error        string                    `json:"error,omitempty"`
}

// ReplayFile is the on-disk form of a violation (DESIGN appendix D).
type ReplayFile struct {
	Property string          `json:"property"`
	World    string          `json:"world,omitempty"` // worker-side world key when it differs from the property id (C17a / C17b)
	Clause   string          `json:"clause"`
	Key      string          `json:"key"`
	Seed     uint64          `json:"seed"`
	Run      int64           `json:"run"`
	Detail   string          `json:"detail"`
	Scenario json.RawMessage `json:"scenario"`
	From     int             `json:"minimised_from_size"`
	To       int             `json:"minimised_to_size"`
	CodeRev  string          `json:"code_rev,omitempty"`
}

// StopExploring lets a worlds package end the exploration early (see Result.Stopped).
var StopExploring func() bool

// capDeadline is the wall-clock cap of the exploring job (unix seconds, 0 = none).
var capDeadline int64

// CapReached tells a scenario that enumerates many faults of one big file that the wall-clock
// cap of the batch has passed: it should stop enumerating (what it has checked so far counts,
// nothing is reported for the rest). Only how much is explored depends on this clock, never a
// verdict.
func CapReached() bool { return capDeadline != 0 && time.Now().Unix() >= capDeadline }

// RunSeed derives the seed of run i from VERIF_SEED.
func RunSeed(seed uint64, i int64) uint64 { return Mix(Mix(seed, 0x51ed), uint64(i)) }

// WorkerMain is the body of TestWorker in each worlds package.
func WorkerMain(t *testing.T, worlds map[string]World, selftest func() error) {
	path := os.Getenv("VERIF_JOB")
	if path == "" {
		t.Skip("VERIF_JOB not set")
	}
	raw, err := os.ReadFile(path)
	if err != nil {
		t.Fatalf("job: %v", err)
	}
	var job Job
	if err := json.Unmarshal(raw, &job); err != nil {
		t.Fatalf("job: %v", err)
	}
	res := &Result{Property: job.Property}
	start := time.Now()
	write := func() {
		res.WallS = time.Since(start).Seconds()
		if res.Stats != nil {
			res.Fingerprints = res.Stats.Fingerprints()
		}
		b, _ := json.Marshal(res)
		if err := os.WriteFile(job.Out, b, 0o644); err != nil {
			t.Fatalf("write result: %v", err)
		}
	}
	if selftest != nil {
		if err := selftest(); err != nil {
			res.Error = "selftest: " + err.Error()
			write()
			return
		}
	}
	w := worlds[job.Property]
	if w == nil {
		res.Error = "unknown property " + job.Property
		write()
		return
	}
	env := &Env{T: t, Tier: job.Tier}
	curRun := int64(-1)
	if job.Progress != "" {
		env.Progress = func(sc Scenario) {
			js, _ := json.Marshal(sc)
			pf, _ := json.Marshal(ReplayFile{Property: job.Property, World: job.Property, Seed: job.Seed, Run: curRun, Scenario: js})
			os.WriteFile(job.Progress, pf, 0o644)
		}
	}
	switch job.Mode {
	case "replay":
		raw, err := os.ReadFile(job.Replay)
		if err != nil {
			res.Error = err.Error()
			write()
			return
		}
		var rf ReplayFile
		if err := json.Unmarshal(raw, &rf); err != nil {
			res.Error = err.Error()
			write()
			return
		}
		sc, err := w.Decode(rf.Scenario)
		if err != nil {
			res.Error = "decode scenario: " + err.Error()
			write()
			return
		}
		res.Stats = NewStats()
		vs := SafeRun(env, sc, res.Stats)
		for _, v := range vs {
			res.Found = append(res.Found, Found{Violation: v, Seed: rf.Seed, Run: rf.Run, Scenario: rf.Scenario})
		}
		write()
		return
	case "cands":
		// list the first-level shrink candidates of a scenario (used by the driver to shrink
		// failures that kill the process: race reports, crashes)
		raw, err := os.ReadFile(job.Replay)
		if err != nil {
			res.Error = err.Error()
			write()
			return
		}
		var rf ReplayFile
		if err := json.Unmarshal(raw, &rf); err != nil {
			res.Error = err.Error()
			write()
			return
		}
		sc, err := w.Decode(rf.Scenario)
		if err != nil {
			res.Error = err.Error()
			write()
			return
		}
		res.Scenarios = map[int64]json.RawMessage{}
		n := int64(0)
		sc.Shrinks(func(c Scenario) bool {
			js, _ := json.Marshal(c)
			res.Scenarios[n] = js
			n++
			return n >= 400 // stop enumerating
		})
		res.Sizes = map[int64]int{-1: sc.Size()}
		write()
		return
	case "gen":
		res.Scenarios = map[int64]json.RawMessage{}
		for i := job.From; i < job.To; i += max64(job.Stride, 1) {
			js, _ := json.Marshal(w.Gen(RunSeed(job.Seed, i), job.Tier))
			res.Scenarios[i] = js
		}
		write()
		return
	case "hashes":
		res.RunHashes = map[int64]uint64{}
		for i := job.From; i < job.To; i += max64(job.Stride, 1) {
			seed := RunSeed(job.Seed, i)
			sc := w.Gen(seed, job.Tier)
			st := NewStats()
			st.EnableLog()
			js, _ := json.Marshal(sc)
			// a scenario must survive its own replay format unchanged
			if back, err := w.Decode(js); err != nil {
				res.Error = fmt.Sprintf("run %d: scenario does not decode from its own JSON: %v", i, err)
				write()
				return
			} else if js2, _ := json.Marshal(back); string(js2) != string(js) {
				res.Error = fmt.Sprintf("run %d: scenario changes when written to and read from a replay file:\n%s\n%s", i, Trunc(string(js), 600), Trunc(string(js2), 600))
				write()
				return
			}
			vs := SafeRun(env, sc, st)
			h := NewHash().Bytes(js)
			for _, v := range vs {
				h = h.Str(v.Clause).Str(v.Key).Str(v.Detail)
			}
			h = h.U64(uint64(st.LogHash()))
			sj, _ := json.Marshal(st)
			h = h.Bytes(sj)
			res.RunHashes[i] = uint64(h)
		}
		write()
		return
	}
	// explore
	res.Stats = NewStats()
	maxFound := job.MaxFound
	if maxFound == 0 {
		maxFound = 4
	}
	seen := map[string]bool{}
	capDeadline = job.Deadline
	defer func() { capDeadline = 0 }()
	for i := job.From; i < job.To; i += max64(job.Stride, 1) {
		if job.Deadline != 0 && time.Now().Unix() >= job.Deadline {
			res.CapHit = true
			break
		}
		if StopExploring != nil && StopExploring() {
			res.Stopped = "a library call had to be abandoned (it did not return); exploration of this worker stopped after recording the violation"
			break
		}
		seed := RunSeed(job.Seed, i)
		sc := w.Gen(seed, job.Tier)
		curRun = i
		res.Stats.Runs++
		vs := SafeRun(env, sc, res.Stats)
		if len(vs) == 0 {
			continue
		}
		for _, v := range vs {
			id := v.Clause + "|" + v.Key
			if seen[id] {
				continue
			}
			if len(res.Found) >= maxFound {
				break
			}
			seen[id] = true
			from := sc.Size()
			min := Minimise(env, sc, v.Clause, v.Key, 3000, time.Now().Add(20*time.Second))
			mv := HasClause(SafeRun(env, min, nil), v.Clause, v.Key)
			if mv == nil {
				// the minimised form does not reproduce: fall back to the scenario as generated
				min = sc
				mv = HasClause(SafeRun(env, min, nil), v.Clause, v.Key)
			}
			if mv == nil {
				res.Error = fmt.Sprintf("run %d fails clause %s/%s once but not when executed again (nondeterminism in the harness or in a wall-clock watchdog)", i, v.Clause, v.Key)
				mv = &v
			}
			js, _ := json.Marshal(min)
			res.Found = append(res.Found, Found{Violation: *mv, Seed: job.Seed, Run: i, Scenario: js, FromSize: from, ToSize: min.Size()})
		}
	}
	write()
}

func max64(a, b int64) int64 {
	if a > b {
		return a
	}
	return b
}
