#!/usr/bin/env python3
"""Mutation campaign: single-point mutants of the anchored library files, each tried in a
scratch worktree (VERIF_REPO), first against the repository's own tests (mutants they kill
are not interesting), then against the quick checks that cover the file.
usage: tools_mutation_campaign.py <lanes> <max_mutants> <seed> [file-filter]
Results: /verif/mutation/results.jsonl (one record per mutant)."""
import json, os, random, subprocess, sys, time, multiprocessing

ENV = dict(os.environ, GOFLAGS="-mod=mod", GOPROXY="off", GOSUMDB="off")
GO126 = "/opt/veriftools/go1.26.8/bin/go"
FILES = {
 "v2/smf/reader.go": ["C01","C02","C05","C09","C10","C12"],
 "v2/smf/writer.go": ["C01","C03","C10"],
 "v2/smf/chunk.go": ["C01","C03","C10","C09"],
 "v2/smf/smf.go": ["C01","C03","C10","C12","C13"],
 "v2/smf/track.go": ["C01","C12","C13","C05"],
 "v2/internal/utils/utils.go": ["C01","C02","C03","C05","C09","C10"],
 "v2/internal/runningstatus/runningstatus.go": ["C01","C02","C03"],
 "v2/helpers.go": ["C01","C02","C05","C04"],
 "v2/drivers/reader.go": ["C04","C06","C14","C13"],
 "v2/listen.go": ["C04","C06","C14","C13","C17"],
 "v2/drivers/testdrv/driver.go": ["C04","C14","C17","C13"],
 "v2/drivers/midicat/midicat.go": ["C19","C17"],
 "v2/drivers/midicatdrv/in.go": ["C17"],
 "v2/drivers/midicatdrv/out.go": ["C17"],
 "v2/drivers/midicatdrv/driver.go": ["C17"],
}
SUITE = ". ./smf/ ./drivers/testdrv/ ./drivers/midicat/ ./drivers/internal/... ./internal/... ./sequencer/".split()

def sh(cmd, cwd=None, env=ENV, timeout=1200):
    p = subprocess.run(cmd, cwd=cwd, env=env, capture_output=True, text=True, timeout=timeout)
    return p.returncode, p.stdout + p.stderr

def lane_setup(i):
    d = f"/tmp/mut/lane{i}"
    if not os.path.isdir(d):
        os.makedirs("/tmp/mut", exist_ok=True)
        sh(["git", "-C", "/repo", "worktree", "add", "-q", "--detach", d, "HEAD"])
    sh(["git", "-C", d, "checkout", "-q", "--detach", subprocess.run(["git","-C","/repo","rev-parse","HEAD"],capture_output=True,text=True).stdout.strip()])
    sh(["git", "-C", d, "checkout", "-q", "--", "."])
    return d

def work(args):
    lane, file, idx = args
    d = f"/tmp/mut/lane{lane}"
    path = os.path.join(d, file)
    orig = open(path).read()
    rec = {"file": file, "index": idx}
    try:
        p = subprocess.run(["/verif/bin/mutate", path, str(idx)], capture_output=True, text=True)
        if p.returncode != 0:
            rec["status"] = "mutate-error"; rec["desc"] = p.stderr.strip(); return rec
        rec["desc"] = p.stderr.strip().replace(d + "/", "")
        open(path, "w").write(p.stdout)
        pkgdir = "./" + os.path.dirname(file)[3:] if os.path.dirname(file) != "v2" else "."
        rc, out = sh(["go", "build", pkgdir if "midicatdrv" not in file else "./drivers/midicatdrv"], cwd=d + "/v2")
        if rc != 0 and "midicatdrv" not in file:
            rec["status"] = "does-not-compile"; return rec
        if "midicatdrv" in file:
            rc, out = sh(["go", "vet", "./drivers/midicatdrv"], cwd=d + "/v2")
            if rc != 0:
                rec["status"] = "does-not-compile"; return rec
        rc, out = sh(["go", "test", "-vet=off", "-count=1"] + SUITE, cwd=d + "/v2")
        if rc != 0:
            rec["status"] = "killed-by-existing-tests"; return rec
        env = dict(ENV, VERIF_REPO=d, VERIF_WORKERS="4", VERIF_ROOT="/verif/mutation/root%d" % lane, GOTOOLCHAIN="local")
        rec["checks"] = {}
        rec["status"] = "survived"
        for c in FILES[file]:
            t0 = time.time()
            rc, out = sh(["/verif/bin/verif", "check", c, "quick"], cwd="/verif", env=env)
            rec["checks"][c] = rc
            if rc == 1:
                rec["status"] = "killed"; rec["by"] = c
                line = [l for l in out.splitlines() if "clause=" in l][:1]
                rec["how"] = line[0].strip()[:300] if line else ""
                break
            if rc == 2:
                rec["status"] = "infra-error"; rec["by"] = c
                rec["how"] = [l for l in out.splitlines() if "infrastructure" in l][:1]
                rec["tail"] = out[-1500:]
                break
        return rec
    except subprocess.TimeoutExpired:
        rec["status"] = "timeout"; return rec
    finally:
        open(path, "w").write(orig)

def main():
    lanes = int(sys.argv[1]); maxm = int(sys.argv[2]); seed = int(sys.argv[3])
    filt = sys.argv[4] if len(sys.argv) > 4 else ""
    os.makedirs("/verif/mutation", exist_ok=True)
    subprocess.run([GO126, "build", "-o", "/verif/bin/mutate", "./cmd/mutate"], cwd="/verif/sim", env=dict(ENV, GOTOOLCHAIN="local"), check=True)
    subprocess.run([GO126, "build", "-o", "/verif/bin/verif", "./cmd/verif"], cwd="/verif/sim", env=dict(ENV, GOTOOLCHAIN="local"), check=True)
    for i in range(lanes):
        lane_setup(i)
        # each lane has its own VERIF_ROOT view so that evidence/replays do not collide
        r = "/verif/mutation/root%d" % i
        os.makedirs(r, exist_ok=True)
        for n in ("sim", "known_findings.json"):
            if not os.path.exists(os.path.join(r, n)):
                os.symlink(os.path.join("/verif", n), os.path.join(r, n))
    pts = []
    for f in FILES:
        if filt and filt not in f: continue
        n = int(subprocess.run(["/verif/bin/mutate", "-count", "/repo/" + f], capture_output=True, text=True).stdout.strip() or 0)
        pts += [(f, i) for i in range(n)]
    random.Random(seed).shuffle(pts)
    done = set()
    res = "/verif/mutation/results.jsonl"
    if os.path.exists(res):
        for l in open(res):
            r = json.loads(l); done.add((r["file"], r["index"]))
    pts = [p for p in pts if p not in done][:maxm]
    if os.environ.get("RERUN"):
        # re-run the mutants recorded with the given status (their old records are dropped)
        want = os.environ["RERUN"].split(",")
        old = [json.loads(l) for l in open(res)]
        pts = [(r["file"], r["index"]) for r in old if r["status"] in want]
        with open(res, "w") as fh:
            for r in old:
                if r["status"] not in want:
                    fh.write(json.dumps(r) + "\n")
    print("mutation points total", len(pts), flush=True)
    # static assignment of lanes through a pool with one process per lane
    q = multiprocessing.Queue()
    def runner(lane, items):
        for f, i in items:
            r = work((lane, f, i))
            with open(res, "a") as fh:
                fh.write(json.dumps(r) + "\n")
            print(lane, r["status"], r.get("by", ""), r.get("desc", "")[:120], flush=True)
    procs = []
    for lane in range(lanes):
        p = multiprocessing.Process(target=runner, args=(lane, pts[lane::lanes]))
        p.start(); procs.append(p)
    for p in procs: p.join()
main()
