#!/bin/sh
# usage: tools_try_patch.sh <patch-file|revert:SHA> <ID> [ID...]
# Applies a change to /repo's working tree, runs the quick checks, restores the tree.
P="$1"; shift
cd /repo || exit 2
git diff --quiet || { echo "repo dirty"; exit 2; }
case "$P" in
  revert:*) git revert --no-commit "${P#revert:}" >/dev/null 2>&1 || { echo "revert failed"; git revert --abort 2>/dev/null; git checkout -- .; exit 2; } ;;
  *) git apply "$P" || { echo "apply failed"; exit 2; } ;;
esac
for id in "$@"; do
  out=$(cd /verif && ./run.sh "$id" quick 2>&1 | grep -v "^port closed")
  code=$?
  v=$(echo "$out" | grep -c "^VIOLATION")
  echo "== $P $id: violations=$v :: $(echo "$out" | grep "clause=" | head -3 | cut -c1-220)"
  echo "$out" | grep -q "infrastructure error" && echo "$out" | tail -5
done
cd /repo && (git revert --abort 2>/dev/null; git reset -q --hard HEAD)
git -C /repo status --short | head -3
