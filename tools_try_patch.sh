#!/bin/sh
# usage: tools_try_patch.sh <patch-file|revert:SHA> <ID> [ID...]
# Applies a change to a scratch worktree of /repo (never to /repo itself), runs the quick
# checks against it through VERIF_REPO, and resets the worktree.
P="$1"; shift
WT=/tmp/wt-try
[ -d $WT ] || git -C /repo worktree add -q --detach $WT HEAD
BASE="$(git -C /repo rev-parse HEAD)"
# a patch written against an older commit of /repo names it in a file BASE beside it
[ -f "$(dirname "$P")/BASE" ] && BASE="$(cat "$(dirname "$P")/BASE")"
git -C $WT checkout -q --detach "$BASE"; git -C $WT checkout -q -- .; git -C $WT clean -fdq
case "$P" in
  revert:*) git -C $WT revert --no-commit "${P#revert:}" >/dev/null 2>&1 || { echo "revert failed"; git -C $WT revert --abort 2>/dev/null; git -C $WT checkout -q -- .; exit 2; } ;;
  *) git -C $WT apply "$P" || { echo "apply failed"; exit 2; } ;;
esac
mkdir -p /verif/mutation/root-try; [ -e /verif/mutation/root-try/sim ] || ln -s /verif/sim /verif/mutation/root-try/sim; [ -e /verif/mutation/root-try/known_findings.json ] || ln -s /verif/known_findings.json /verif/mutation/root-try/known_findings.json
for id in "$@"; do
  out=$(cd /verif && VERIF_REPO=$WT VERIF_ROOT=/verif/mutation/root-try ./run.sh "$id" quick 2>&1 | grep -v "^port closed")
  v=$(echo "$out" | grep -c "^VIOLATION")
  echo "== $P $id: violations=$v :: $(echo "$out" | grep "clause=" | head -3 | cut -c1-220)"
  echo "$out" | grep -q "infrastructure error" && echo "$out" | grep "infrastructure error" | cut -c1-300
done
(git -C $WT revert --abort 2>/dev/null; git -C $WT reset -q --hard HEAD; git -C $WT clean -fdq)
