#!/bin/sh
# Builds the driver and warms the build cache (std with go1.26.8, race runtime) offline.
set -u
HERE="$(cd "$(dirname "$0")" && pwd)"
export VERIF_ROOT="$HERE"
export GOFLAGS=-mod=mod GOPROXY=off GOSUMDB=off GOTOOLCHAIN=local
GO=/opt/veriftools/go1.26.8/bin/go
[ -x "$GO" ] || GO=go1.26.8
mkdir -p "$HERE/bin" "$HERE/evidence" "$HERE/replays"
cd "$HERE/sim" || exit 2
"$GO" build -o "$HERE/bin/verif" ./cmd/verif || exit 2
"$GO" vet ./core ./simio ./ref ./worlds ./instrument ./cmd/... || exit 2
"$GO" test -count=1 -run 'TestSelf' ./worlds || exit 2
PATH="$(dirname "$GO"):$PATH" "$GO" test -count=1 ./instrument || exit 2
# warm the race-enabled build of the instrumented driver (first build compiles the race runtime)
VERIF_RUNS=32 "$HERE/bin/verif" check C17 quick >/dev/null 2>&1 || { echo "setup: C17 warm-up run failed (exit $?)" >&2; }
echo "setup ok"
