#!/bin/sh
# usage: tools_seeded.sh <seeded-dir> <demo-package-dir-relative-to-repo-root> <ID> [ID...]
# 1. confirms in a scratch worktree: existing tests pass with the patch; the demo fails with it and passes without
# 2. applies the patch to /repo, runs the quick checks, restores /repo
D="$1"; PKG="$2"; shift 2
export GOFLAGS=-mod=mod GOPROXY=off GOSUMDB=off
WT=/tmp/wt-confirm
[ -d $WT ] || git -C /repo worktree add -q --detach $WT HEAD
git -C $WT checkout -q --detach "$(git -C /repo rev-parse HEAD)"; git -C $WT checkout -q -- .; git -C $WT clean -fdq
PK="./ ./smf/ ./drivers/testdrv/ ./drivers/midicat/ ./drivers/internal/... ./internal/... ./sequencer/"
if [ ! -x /tmp/fake-midicat/bin/midicat ]; then mkdir -p /tmp/fake-midicat && cp /verif/seeded/fake-midicat/main.go /verif/seeded/fake-midicat/go.mod /tmp/fake-midicat/ && (cd /tmp/fake-midicat && go build -o bin/midicat . ); fi
export PATH=/tmp/fake-midicat/bin:$PATH
cp "$D/zz_demo_test.go" "$WT/$PKG/zz_demo_test.go"
without=$(cd $WT/v2 && go test -vet=off -count=1 -run 'Demo' ./${PKG#v2/}/ 2>&1 | tail -1)
rm "$WT/$PKG/zz_demo_test.go"
git -C $WT apply "$D/patch.diff" || { echo "CONFIRM $D: patch does not apply"; exit 1; }
suite=$(cd $WT/v2 && go test -vet=off -count=1 $PK 2>&1 | grep -v "^ok" | head -3)
cp "$D/zz_demo_test.go" "$WT/$PKG/zz_demo_test.go"
with=$(cd $WT/v2 && go test -vet=off -count=1 -run 'Demo' ./${PKG#v2/}/ 2>&1 | tail -1)
echo "CONFIRM $D: demo-without-change=[$without] demo-with-change=[$with] suite-failures=[$suite]"
git -C $WT checkout -q -- .; git -C $WT clean -fdq
/verif/tools_try_patch.sh "$D/patch.diff" "$@" 2>&1 | grep -v "^port closed" | grep "^==\|infrastructure\|apply failed" | cut -c1-420
