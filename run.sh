#!/bin/sh
# usage: run.sh <ID> <quick|thorough>   |   run.sh replay <file>   |   run.sh determinism <ID> [seeds]
# Rebuilds the driver and (inside it) the worker binary from /repo's current working tree.
set -u
HERE="$(cd "$(dirname "$0")" && pwd)"
export VERIF_ROOT="${VERIF_ROOT:-$HERE}"
export GOFLAGS=-mod=mod GOPROXY=off GOSUMDB=off GOTOOLCHAIN=local
GO=/opt/veriftools/go1.26.8/bin/go
[ -x "$GO" ] || GO=go1.26.8
mkdir -p "$HERE/bin"
( cd "$HERE/sim" && "$GO" build -o "$HERE/bin/verif" ./cmd/verif ) || { echo "run.sh: building the driver failed" >&2; exit 2; }
case "${1:-}" in
  replay|determinism) exec "$HERE/bin/verif" "$@" ;;
  *) exec "$HERE/bin/verif" check "$@" ;;
esac
